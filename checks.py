"""Property table: which monitors decide which property, on which groups, with which budgets."""
import os, time
from check import Bin, build_all, run_sharded, finish, Fold

CORE = ['SO2', 'SE2', 'SO3', 'SE3', 'SE23', 'SGAL3', 'R3']
BUNDLES_Q = ['BT1', 'BT4']                 # quick: two heterogeneous triples (cover SE2 SO3 SE3 / SE_2_3 SGal3 R3)
BUNDLES_T = ['BT0', 'BT1', 'BT2', 'BT3', 'BT4', 'BT5', 'BT6', 'BR0', 'BR2', 'BA']
SHARD = 25000


def numeric(prop, src, build='asan', nq=20000, nt=1000000, groups_q=None, groups_t=None, float_groups=None,
            rule='', assumptions=(), level='exploration', timeout_q=900, timeout_t=7200, extra_defs=(), float_n_scale=1.0,
            extra_bins=None, shard=SHARD, n_scale=None):
    gq = groups_q if groups_q is not None else CORE + ['R1', 'R9'] + BUNDLES_Q
    gt = groups_t if groups_t is not None else CORE + ['R1', 'R9'] + BUNDLES_T
    fg = float_groups if float_groups is not None else CORE

    def combos(tier):
        gs = gq if tier == 'quick' else gt
        out = [(g, 'double') for g in gs]
        out += [(g, 'float') for g in fg]
        return out

    def bins(tier):
        bs = [Bin(src, build, ['MG=' + g, 'MS=' + s] + list(extra_defs)) for g, s in combos(tier)]
        if extra_bins: bs += extra_bins(tier)
        return bs

    def run(p, tier, seed, t0):
        bs = bins(tier)
        ok, dt = build_all(bs)
        fail = None
        fold_pre = Fold()
        for b in bs:
            if b.error:
                fail = (fail or '') + ' monitor %s does not build against the current tree (see .cache/bin/*.err): %s' % (b.name, b.error.strip().split('\n')[0][:200])
        n = nq if tier == 'quick' else nt
        jobs = []
        for b in bs:
            if not b.path: continue
            nn = n
            if 'MS=float' in b.defs: nn = int(n * float_n_scale)
            if n_scale: nn = max(1, int(nn * n_scale.get(b.defs[0][3:], 1.0)))
            k = max(1, (nn + shard - 1) // shard)
            for sidx in range(k):
                jobs.append({'bin': b, 'n': min(shard, nn - sidx * shard), 'seed': seed * 1000 + sidx, 'tag': '/'.join(d.split('=')[1] for d in b.defs[:2])})
        fold, f2 = run_sharded(p, tier, seed, jobs, timeout_q if tier == 'quick' else timeout_t)
        if f2: fail = (fail or '') + f2
        spec = {'rule': rule, 'assumptions': list(assumptions), 'level': level}
        return finish(p, tier, seed, fold, spec, t0, harness_fail=fail,
                      extra_cov={'groups': sorted(set(b.defs[0][3:] + '/' + b.defs[1][3:] for b in bs)), 'build': build, 'compile_s': round(dt, 1),
                                 'cases_per_group': n})

    return {'bins': bins, 'run': run}


RULE_STRATA = ('cases are drawn by harness/strata.h: rotation magnitude from {0, denormal, theta^2-underflow, 1e-30..1e-9, each candidate '
               'switch-over (eps^(1/2,1/3,1/4,1/6)) +-{0,1,2 ulp,1e-13 rel}, log-uniform (sqrt(eps),1e-2), generic, pi-{1e-3..1e-12}, beyond pi}, '
               'independently of linear magnitude {0,1e-8,1e-3,1,1e3,1e6} x direction {random, parallel, perpendicular to the axis} and SGal3 time '
               '{0,+-1e-3,+-1,+-1e3}; a cell is (operation, group, scalar, theta band, linear band[, hemisphere]); it counts as non-trivial when at '
               'least one sample in it had a non-degenerate input (non-zero rotation or non-identity operand); cells are counted from the event '
               'logs of the monitor processes, not from loop bounds')
ASSUME_FP = ['x86-64 SSE2 floating point without FMA contraction and without -ffast-math (the baseline compilation model)',
             'reference model harness/model.cpp (long double, ~1e-18) is the oracle; it is self-checked at start-up of every monitor process',
             'system Eigen 3.4.0, g++ 12.2']

REGISTRY = {}

REGISTRY['C02'] = numeric('C02', 'c02_exp.cpp', nq=30000, nt=2000000,
                          rule='exp: ' + RULE_STRATA, assumptions=ASSUME_FP)
REGISTRY['C03'] = numeric('C03', 'c03_log.cpp', nq=30000, nt=2000000,
                          rule='log: production routes {independent coefficients in both hemispheres, inverse, exp, exp beyond pi, products of two near-pi '
                               'rotations about almost the same axis (angle 2pi-eps), Random()} x ' + RULE_STRATA, assumptions=ASSUME_FP)
REGISTRY['C01'] = numeric('C01', 'c01_group.cpp', nq=20000, nt=1000000,
                          rule='group law: triples (X,Y,Z) of elements built from independently normalised rotation data in both hemispheres or through exp '
                               '(incl. beyond pi), Y=X and Y=Identity forced periodically, points up to 1e6; ' + RULE_STRATA, assumptions=ASSUME_FP)
REGISTRY['C06'] = numeric('C06', 'c06_jac.cpp', nq=8000, nt=400000,
                          rule='tangent Jacobians and adjoints: ' + RULE_STRATA, assumptions=ASSUME_FP + ['float instantiations are held to 1e-2 only (the property states its bound for double)'])

REGISTRY['C05'] = numeric('C05', 'c05_jacobians.cpp', nq=3000, nt=150000, shard=2500, float_groups=['SE2', 'SO3', 'SE3', 'SGAL3'], float_n_scale=0.3,
                          n_scale={'BT1': 0.4, 'BT4': 0.25, 'BT0': 0.5, 'BT2': 0.3, 'BT3': 0.2, 'BT5': 0.3, 'BT6': 0.5, 'BR0': 0.6, 'BR2': 0.5, 'BA': 0.6, 'SGAL3': 0.6, 'SE23': 0.7},
                          rule='Jacobians of inverse, log, exp, compose, between, rplus, lplus, rminus, lminus, act (each w.r.t. every argument), plus/minus aliases and tangent plus/minus; '
                               'per case 4 (2 for large bundles) operations are drawn; operands: element X, tangent t, second element Y either independent or at the stratified relative transform exp(t) from X; '
                               + RULE_STRATA, assumptions=ASSUME_FP + ['oracle Jacobian = 4th-order central differences of the definition on the long-double model, step min(1e-4, 0.01*(pi-theta))',
                                                                       'float instantiations are held to 1e-2 only (the property states its bound for double)'])

REGISTRY['C04'] = numeric('C04', 'c04_plusminus.cpp', nq=15000, nt=600000,
                          rule='plus/minus/between definitions vs model and 45 alias forms (members, operators, tangent-side forms, functions.h facade, Map operands) compared bit-for-bit '
                               'with the canonical member; ' + RULE_STRATA, assumptions=ASSUME_FP)

ALL_BUNDLES = ['BT0', 'BT1', 'BT2', 'BT3', 'BT4', 'BT5', 'BT6', 'BS0', 'BS1', 'BS2', 'BS3', 'BS4', 'BS5', 'BS6', 'BR0', 'BR1', 'BR2', 'BL0', 'BA', 'BC', 'BD']
ALL_RN = ['R1', 'R2', 'R3', 'R4', 'R5', 'R6', 'R7', 'R8', 'R9']
C07_GROUPS = ['SO2', 'SE2', 'SO3', 'SE3', 'SE23', 'SGAL3'] + ALL_RN + ALL_BUNDLES
REGISTRY['C07'] = numeric('C07', 'c07_algebra.cpp', nq=4000, nt=200000, groups_q=C07_GROUPS, groups_t=C07_GROUPS, float_groups=CORE,
                          rule='every generator index 0<=i<DoF of every group / Rn n=1..9 / 21 bundle layouts is enumerated (exhaustive) and compared entry-wise with the documented table, 7 out-of-range '
                               'indices must raise invalid_argument; hat/vee/bracket/inner identities on random tangent triples (every fifth triple small integers, where every identity must hold exactly); '
                               + RULE_STRATA, assumptions=ASSUME_FP)

def c17_spec():
    groups = ['SE2', 'SO3', 'SE3', 'SGAL3', 'R3', 'BT1']
    def bins(tier):
        return [Bin('c17_decasteljau.cpp', 'asan', ['MG=' + g, 'MS=double']) for g in groups] + [Bin('c17_decasteljau.cpp', 'asan', ['MG=SE2', 'MS=float'])]
    def run(p, tier, seed, t0):
        bs = bins(tier)
        ok, dt = build_all(bs)
        fail = None
        for b in bs:
            if b.error: fail = (fail or '') + ' monitor %s does not build: %s' % (b.name, b.error.strip().split('\n')[0][:200])
        par = dict(Nmax=10, kmax=2, ntraj=1, nshard=2) if tier == 'quick' else dict(Nmax=16, kmax=4, ntraj=3, nshard=8)
        jobs = []
        for b in bs:
            if not b.path: continue
            for sh in range(par['nshard']):
                jobs.append({'bin': b, 'n': 0, 'seed': seed, 'tag': '/'.join(d.split('=')[1] for d in b.defs[:2]),
                             'args': ['--arg', 'Nmax=%d' % par['Nmax'], '--arg', 'kmax=%d' % par['kmax'], '--arg', 'ntraj=%d' % par['ntraj'], '--arg', 'shard=%d/%d' % (sh, par['nshard'])]})
        fold, f2 = run_sharded(p, tier, seed, jobs, 1800 if tier == 'quick' else 14400)
        if f2: fail = (fail or '') + f2
        spec = {'level': 'exploration', 'rule': 'every (N, degree, k, closed) with 3<=N<=%(Nmax)d, 2<=degree<=N, 1<=k<=%(kmax)d, closed in {0,1} is enumerated (exhaustive over that box) x %(ntraj)d trajectories per '
                'configuration (smooth / identical points / steps of 1..2.6 rad / steps of 1e-9), plus 28 inputs that must raise (N<3, degree>N, k=0); each configuration runs in its own forked child under '
                'ASan+UBSan+_GLIBCXX_ASSERTIONS with a 30 s watchdog; a cell is one configuration; every returned point is compared with a reference De Casteljau evaluated on the long-double model' % par,
                'assumptions': ASSUME_FP + ['a child that exceeds 30 s twice is reported as non-termination (a correct run of the largest configuration takes < 0.5 s)']}
        return finish(p, tier, seed, fold, spec, t0, harness_fail=fail, extra_cov={'exhaustive': True, 'box': par, 'groups': [b.name for b in bs]})
    return {'bins': bins, 'run': run}
REGISTRY['C17'] = c17_spec()

# ------------------------------------------------------------------------------------------------
# MANIFEST metadata
# ------------------------------------------------------------------------------------------------
ENGINES = [
    {'name': 'ref-model differential monitor', 'path': '/verif/harness/model.cpp', 'serves_properties': ['C01', 'C02', 'C03', 'C04', 'C05', 'C06'],
     'kind_free_text': 'independent long-double matrix-Lie-group model (typed-in generators, Taylor expm, Shepperd-based log, FD Jacobians) used as oracle over stratified random workloads under ASan+UBSan'},
]
NOT_APPLICABLE = {}
NOTE_NUM = ('Holds on the executions described in the evidence file, nothing more. Trusted base: the reference model (self-checked at every process start), '
            'gcc 12 / Eigen 3.4, x86-64 SSE2 arithmetic without FMA contraction. Tolerances are fixed in DESIGN.md section 4 (>=10x the worst error observed on the repaired tree).')
MANIFEST_META = {
    'C01': dict(engine='ref-model differential monitor', design_ref='DESIGN.md 4/C01', technique='differential runtime monitor vs independent long-double model under ASan/UBSan',
                text='Every compose/inverse/identity/act/transform result of ~2e4 (quick) to 1e6 (thorough) stratified operand triples per group is compared with the product / inverse / action of reference matrices built from the coefficient vectors; held-on-observed-executions assurance, which is what a pure numerical function over a continuous domain admits.',
                note=NOTE_NUM),
    'C02': dict(engine='ref-model differential monitor', design_ref='DESIGN.md 4/C02', technique='differential runtime monitor vs independent long-double matrix exponential under ASan/UBSan',
                text='t.exp() is compared with a scaling-and-squaring Taylor expm of the reference hat(t) over the full rotation-magnitude axis (0, denormal, every candidate switch-over +-ulp, dense log sweep, near pi, beyond pi) x independent linear magnitude 0..1e6, all groups, double and float; hat and generators are compared exactly.',
                note=NOTE_NUM),
    'C03': dict(engine='ref-model differential monitor', design_ref='DESIGN.md 4/C03', technique='differential runtime monitor over six element-production routes vs model exp/log',
                text='X.log() is checked (finite, principal, exp_ref(log X)=X, equal to the model logarithm, log(q)=log(-q), t.exp().log()=t) on elements produced by six routes including both quaternion hemispheres and products of near-pi rotations (angle 2pi-eps), which no unit test generates.',
                note=NOTE_NUM + ' Near pi the tolerance carries the documented conditioning term 16u/(pi-theta).'),
    'C05': dict(engine='ref-model differential monitor', design_ref='DESIGN.md 4/C05', technique='runtime monitor: analytic Jacobians vs 4th-order central differences of the definition on the long-double model',
                text='Each returned Jacobian of inverse, log, exp, compose, between, rplus, lplus, rminus, lminus, act (w.r.t. every argument) is compared with the derivative of f(X (+) d) (-) f(X) computed on the reference model, at the 1e-6 relative bound the property states; argument rotation and relative rotation are swept independently from 0 to pi-1e-6, translations 0..1e6. A disagreement is judged only if the oracle agrees with itself at h/2 and 2h (otherwise counted as oracle-unresolved).',
                note=NOTE_NUM + ' Samples within ~3e-6 of the cut locus with |time*velocity| >= 1e8 can be oracle-unresolved; they are counted in the evidence, not judged.'),
    'C06': dict(engine='ref-model differential monitor', design_ref='DESIGN.md 4/C06', technique='runtime monitor vs series-defined Jr (augmented expm of ad), model Adj/ad',
                text='rjac/ljac are compared with sum_k (-ad)^k/(k+1)! evaluated as a block of expm([[-ad,I],[0,0]]) (no small-angle case analysis in the oracle), the inverses with the model inverse and as products, Adj/adj/smallAdj with their definitions on the reference matrices, at the 1e-6 relative bound the property states, densely in (sqrt(eps),1e-2) where the defects were.',
                note=NOTE_NUM),
}
