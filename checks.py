"""Property table: which monitors decide which property, on which groups, with which budgets."""
import os, time
from check import Bin, build_all, run_sharded, finish, Fold

CORE = ['SO2', 'SE2', 'SO3', 'SE3', 'SE23', 'SGAL3', 'R3']
BUNDLES_Q = ['BT1', 'BT4']                 # quick: two heterogeneous triples (cover SE2 SO3 SE3 / SE_2_3 SGal3 R3)
BUNDLES_T = ['BT0', 'BT1', 'BT2', 'BT3', 'BT4', 'BT5', 'BT6', 'BR0', 'BR2', 'BA']
SHARD = 25000


def numeric(prop, src, build='asan', nq=20000, nt=1000000, groups_q=None, groups_t=None, float_groups=None,
            rule='', assumptions=(), level='exploration', timeout_q=900, timeout_t=7200, extra_defs=(), float_n_scale=1.0,
            extra_bins=None, shard=SHARD):
    gq = groups_q if groups_q is not None else CORE + ['R1', 'R9'] + BUNDLES_Q
    gt = groups_t if groups_t is not None else CORE + ['R1', 'R9'] + BUNDLES_T
    fg = float_groups if float_groups is not None else CORE

    def combos(tier):
        gs = gq if tier == 'quick' else gt
        out = [(g, 'double') for g in gs]
        out += [(g, 'float') for g in fg]
        return out

    def bins(tier):
        bs = [Bin(src, build, ['MG=' + g, 'MS=' + s] + list(extra_defs)) for g, s in combos(tier)]
        if extra_bins: bs += extra_bins(tier)
        return bs

    def run(p, tier, seed, t0):
        bs = bins(tier)
        ok, dt = build_all(bs)
        fail = None
        fold_pre = Fold()
        for b in bs:
            if b.error:
                fail = (fail or '') + ' monitor %s does not build against the current tree (see .cache/bin/*.err): %s' % (b.name, b.error.strip().split('\n')[0][:200])
        n = nq if tier == 'quick' else nt
        jobs = []
        for b in bs:
            if not b.path: continue
            nn = n
            if 'MS=float' in b.defs: nn = int(n * float_n_scale)
            k = max(1, (nn + shard - 1) // shard)
            for sidx in range(k):
                jobs.append({'bin': b, 'n': min(shard, nn - sidx * shard), 'seed': seed * 1000 + sidx, 'tag': '/'.join(d.split('=')[1] for d in b.defs[:2])})
        fold, f2 = run_sharded(p, tier, seed, jobs, timeout_q if tier == 'quick' else timeout_t)
        if f2: fail = (fail or '') + f2
        spec = {'rule': rule, 'assumptions': list(assumptions), 'level': level}
        return finish(p, tier, seed, fold, spec, t0, harness_fail=fail,
                      extra_cov={'groups': sorted(set(b.defs[0][3:] + '/' + b.defs[1][3:] for b in bs)), 'build': build, 'compile_s': round(dt, 1),
                                 'cases_per_group': n})

    return {'bins': bins, 'run': run}


RULE_STRATA = ('cases are drawn by harness/strata.h: rotation magnitude from {0, denormal, theta^2-underflow, 1e-30..1e-9, each candidate '
               'switch-over (eps^(1/2,1/3,1/4,1/6)) +-{0,1,2 ulp,1e-13 rel}, log-uniform (sqrt(eps),1e-2), generic, pi-{1e-3..1e-12}, beyond pi}, '
               'independently of linear magnitude {0,1e-8,1e-3,1,1e3,1e6} x direction {random, parallel, perpendicular to the axis} and SGal3 time '
               '{0,+-1e-3,+-1,+-1e3}; a cell is (operation, group, scalar, theta band, linear band[, hemisphere]); it counts as non-trivial when at '
               'least one sample in it had a non-degenerate input (non-zero rotation or non-identity operand); cells are counted from the event '
               'logs of the monitor processes, not from loop bounds')
ASSUME_FP = ['x86-64 SSE2 floating point without FMA contraction and without -ffast-math (the baseline compilation model)',
             'reference model harness/model.cpp (long double, ~1e-18) is the oracle; it is self-checked at start-up of every monitor process',
             'system Eigen 3.4.0, g++ 12.2']

REGISTRY = {}

REGISTRY['C02'] = numeric('C02', 'c02_exp.cpp', nq=30000, nt=2000000,
                          rule='exp: ' + RULE_STRATA, assumptions=ASSUME_FP)
