"""Property table: which monitors decide which property, on which groups, with which budgets."""
import os, time
from check import Bin, build_all, run_sharded, finish, Fold, header_coverage

CORE = ['SO2', 'SE2', 'SO3', 'SE3', 'SE23', 'SGAL3', 'R3']
BUNDLES_Q = ['BT1', 'BT4']                 # quick: two heterogeneous triples (cover SE2 SO3 SE3 / SE_2_3 SGal3 R3)
BUNDLES_T = ['BT0', 'BT1', 'BT2', 'BT3', 'BT4', 'BT5', 'BT6', 'BR0', 'BR2', 'BA']
SHARD = 25000


def numeric(prop, src, build='asan', nq=20000, nt=1000000, groups_q=None, groups_t=None, float_groups=None,
            rule='', assumptions=(), level='exploration', timeout_q=900, timeout_t=7200, extra_defs=(), float_n_scale=1.0,
            extra_bins=None, shard=SHARD, n_scale=None, post=None, min_shards=1, extra_jobs=None, cov_groups=('SE2', 'SO3', 'SE3', 'SE23', 'SGAL3', 'BT1'), cov_n=1500):
    gq = groups_q if groups_q is not None else CORE + ['R1', 'R9'] + BUNDLES_Q
    gt = groups_t if groups_t is not None else CORE + ['R1', 'R9'] + BUNDLES_T
    fg = float_groups if float_groups is not None else CORE

    def combos(tier):
        gs = gq if tier == 'quick' else gt
        out = [(g, 'double') for g in gs]
        out += [(g, 'float') for g in fg]
        return out

    def bins(tier):
        bs = [Bin(src, build, ['MG=' + g, 'MS=' + s] + list(extra_defs)) for g, s in combos(tier)]
        if extra_bins: bs += extra_bins(tier)
        return bs

    def run(p, tier, seed, t0):
        bs = bins(tier)
        ok, dt = build_all(bs)
        fail = None
        fold_pre = Fold()
        for b in bs:
            if b.error:
                fail = (fail or '') + ' monitor %s does not build against the current tree (see .cache/bin/*.err): %s' % (b.name, b.error.strip().split('\n')[0][:200])
        n = nq if tier == 'quick' else nt
        jobs = []
        for b in bs:
            if not b.path or len(b.defs) < 2 or '-memcheck-' in b.name: continue
            nn = n
            if 'MS=float' in b.defs: nn = int(n * float_n_scale)
            if n_scale: nn = max(1, int(nn * n_scale.get(b.defs[0][3:], 1.0)))
            k = max(min_shards, (nn + shard - 1) // shard)
            for sidx in range(k):
                jobs.append({'bin': b, 'n': max(2, min(shard, nn - sidx * shard) if k == (nn + shard - 1) // shard else nn // k), 'seed': seed * 1000 + sidx, 'tag': '/'.join(d.split('=')[1] for d in b.defs[:2])})
        if extra_jobs: jobs += extra_jobs(tier, seed, bs)
        fold, f2 = run_sharded(p, tier, seed, jobs, timeout_q if tier == 'quick' else timeout_t)
        if f2: fail = (fail or '') + f2
        if post: post(fold)
        spec = {'rule': rule, 'assumptions': list(assumptions), 'level': level}
        gs_all = [g for g, sc in combos(tier) if sc == 'double']
        cov = header_coverage(p, [{'src': src, 'defs': ['MG=' + g, 'MS=double'] + list(extra_defs), 'n': cov_n, 'seed': seed, 'stubs': build == 'jet'} for g in cov_groups if g in gs_all]) if cov_groups else None
        return finish(p, tier, seed, fold, spec, t0, harness_fail=fail,
                      extra_cov={'anchored_header_line_coverage': cov, 'groups': sorted(set(b.defs[0][3:] + '/' + b.defs[1][3:] for b in bs if len(b.defs) >= 2)), 'build': build, 'compile_s': round(dt, 1),
                                 'cases_per_group': n})

    return {'bins': bins, 'run': run}


RULE_STRATA = ('cases are drawn by harness/strata.h: rotation magnitude from {0, denormal, theta^2-underflow, 1e-30..1e-9, each candidate '
               'switch-over (eps^(1/2,1/3,1/4,1/6)) +-{0,1,2 ulp,1e-13 rel}, log-uniform (sqrt(eps),1e-2), generic, pi-{1e-3..1e-12}, beyond pi}, '
               'independently of linear magnitude {0,1e-8,1e-3,1,1e3,1e6} x direction {random, parallel, perpendicular to the axis} and SGal3 time '
               '{0,+-1e-3,+-1,+-1e3}; a cell is (operation, group, scalar, theta band, linear band[, hemisphere]); it counts as non-trivial when at '
               'least one sample in it had a non-degenerate input (non-zero rotation or non-identity operand); cells are counted from the event '
               'logs of the monitor processes, not from loop bounds')
ASSUME_FP = ['x86-64 SSE2 floating point without FMA contraction and without -ffast-math (the baseline compilation model)',
             'reference model harness/model.cpp (long double, ~1e-18) is the oracle; it is self-checked at start-up of every monitor process',
             'system Eigen 3.4.0, g++ 12.2']

REGISTRY = {}


def exact_bins(tier):
    return [Bin('c01_exact.cpp', 'exact', [], name='c01_exact-exact')]


def exact_jobs(which):
    def f(tier, seed, bs):
        b = [x for x in bs if x.name == 'c01_exact-exact' and x.path]
        if not b: return []
        k, n = (16, 60) if tier == 'quick' else (16, 1500)
        return [{'bin': b[0], 'n': n, 'seed': seed * 1000 + i, 'tag': 'exact-rational', 'args': ['--arg', 'which=' + which]} for i in range(k)]
    return f

REGISTRY['C02'] = numeric('C02', 'c02_exp.cpp', nq=30000, nt=8000000,
                          rule='exp: ' + RULE_STRATA, assumptions=ASSUME_FP)
REGISTRY['C03'] = numeric('C03', 'c03_log.cpp', nq=30000, nt=4000000,
                          rule='log: production routes {independent coefficients in both hemispheres, inverse, exp, exp beyond pi, products of two near-pi '
                               'rotations about almost the same axis (angle 2pi-eps), Random(), composition chains of 3..42 large rotations} x ' + RULE_STRATA, assumptions=ASSUME_FP)
REGISTRY['C01'] = numeric('C01', 'c01_group.cpp', nq=20000, nt=2000000, extra_bins=exact_bins, extra_jobs=exact_jobs('C01'),
                          rule='group law: triples (X,Y,Z) of elements built from independently normalised rotation data in both hemispheres or through exp '
                               '(incl. beyond pi), Y=X and Y=Identity forced periodically, points up to 1e6; EXACT HALF: the same identities with == over an exact-rational scalar (harness/rational.h, __int128 fractions, rational unit quaternions by stereographic projection, both hemispheres) for SE2, SO3, SE3, SE_2_3, SGal3, R3, SO2 (coefficients only) and two bundles; ' + RULE_STRATA, assumptions=ASSUME_FP)
REGISTRY['C06'] = numeric('C06', 'c06_jac.cpp', nq=8000, nt=400000,
                          rule='tangent Jacobians and adjoints: ' + RULE_STRATA, assumptions=ASSUME_FP + ['float instantiations are held to 1e-2 only (the property states its bound for double)'])

REGISTRY['C05'] = numeric('C05', 'c05_jacobians.cpp', nq=3000, nt=160000, shard=2500, float_groups=['SE2', 'SO3', 'SE3', 'SGAL3'], float_n_scale=0.3,
                          n_scale={'BT1': 0.4, 'BT4': 0.25, 'BT0': 0.5, 'BT2': 0.3, 'BT3': 0.2, 'BT5': 0.3, 'BT6': 0.5, 'BR0': 0.6, 'BR2': 0.5, 'BA': 0.6, 'SGAL3': 0.6, 'SE23': 0.7},
                          rule='Jacobians of inverse, log, exp, compose, between, rplus, lplus, rminus, lminus, act (each w.r.t. every argument), plus/minus aliases and tangent plus/minus; '
                               'per case 4 (2 for large bundles) operations are drawn; operands: element X, tangent t, second element Y either independent or at the stratified relative transform exp(t) from X; '
                               + RULE_STRATA, assumptions=ASSUME_FP + ['oracle Jacobian = 4th-order central differences of the definition on the long-double model, step min(1e-4, 0.01*(pi-theta))',
                                                                       'float instantiations are held to 1e-2 only (the property states its bound for double)'])

REGISTRY['C04'] = numeric('C04', 'c04_plusminus.cpp', nq=15000, nt=450000,
                          rule='plus/minus/between definitions vs model and 60 alias forms (values and Jacobian routing) (members, operators, tangent-side forms, functions.h facade, Map operands) compared bit-for-bit '
                               'with the canonical member; ' + RULE_STRATA, assumptions=ASSUME_FP)

ALL_BUNDLES = ['BT0', 'BT1', 'BT2', 'BT3', 'BT4', 'BT5', 'BT6', 'BS0', 'BS1', 'BS2', 'BS3', 'BS4', 'BS5', 'BS6', 'BR0', 'BR1', 'BR2', 'BL0', 'BA', 'BC', 'BD']
ALL_RN = ['R1', 'R2', 'R3', 'R4', 'R5', 'R6', 'R7', 'R8', 'R9']
C07_GROUPS = ['SO2', 'SE2', 'SO3', 'SE3', 'SE23', 'SGAL3'] + ALL_RN + ALL_BUNDLES
REGISTRY['C07'] = numeric('C07', 'c07_algebra.cpp', nq=4000, nt=400000, extra_bins=exact_bins, extra_jobs=exact_jobs('C07'), groups_q=C07_GROUPS, groups_t=C07_GROUPS, float_groups=CORE,
                          rule='every generator index 0<=i<DoF of every group / Rn n=1..9 / 21 bundle layouts is enumerated (exhaustive) and compared entry-wise with the documented table, 7 out-of-range '
                               'indices must raise invalid_argument; hat/vee/bracket/inner identities on random tangent triples (every fifth triple small integers, where every identity must hold exactly); EXACT HALF: hat, vee, bracket=commutator, antisymmetry, Jacobi, inner=Frobenius, smallAdj, Adj*s=vee(X hat(s) X^-1) with == over the exact-rational scalar; '
                               + RULE_STRATA, assumptions=ASSUME_FP)

REGISTRY['C15'] = numeric('C15', 'c15_interp.cpp', nq=6000, nt=220000, groups_q=CORE + ['BT1', 'BT4'], groups_t=CORE + ['R1', 'R9', 'BT0', 'BT1', 'BT3', 'BT4', 'BA'],
                          rule='pairs (A, B=A*exp(tab)) with relative rotation stratified up to pi-1e-6 and translations up to 1e6, arbitrary end velocities (zero every third case), 3 methods x {t=0, t=1, interior t, 10 parameters outside [0,1] incl. +-inf, NaN, -denorm_min, nextafter(1)}; '
                               'SLERP vs the model geodesic and vs left translation by a random L; smoothing_phi on a 20000-point grid for degrees 1..4, unsupported degrees {0,5,6,100,SIZE_MAX}; ' + RULE_STRATA, assumptions=ASSUME_FP)

REGISTRY['C16'] = numeric('C16', 'c16_average.cpp', nq=1500, nt=100000, groups_q=CORE + ['R1', 'BT1'], groups_t=CORE + ['R1', 'R9', 'BT0', 'BT1', 'BT4', 'BA'], float_groups=['SE2', 'SO3', 'SE3'], shard=5000,
                          rule='clouds of 1..50 points C (+) d_i around a centre C drawn from all rotation strata (incl. within 1e-12 of pi) with coordinates up to 1e3, radius log-uniform in [1e-6,0.5] (0.5 every fifth case), identical points every ninth case; '
                               'four routines; stationarity measured with the model logarithm; random permutation; left/right translations by random elements; ' + RULE_STRATA, assumptions=ASSUME_FP)

REGISTRY['C18'] = numeric('C18', 'c18_approx.cpp', nq=20000, nt=2000000,
                          rule='elements with coordinates from 0 and 1e-8 up to 1e9 (float: 1e4) and SGal3 times up to 1e3: reflexivity of isApprox/== (three eps), equality of q and -q; pairs Y = X (+) d with ||d||_inf = eps/100 and 100 eps for eps in {1e-12..1e-2}, '
                               'judged only when eps >= 1e4*u*max|coordinate|*max|time| (otherwise counted unresolvable); tangents with norms 1e-12..1e9: identical, against zero at eps/10 and 10 eps, relative at (1 +- eps/10) and (1 +- 10 eps); ' + RULE_STRATA,
                          assumptions=ASSUME_FP + ['X == X relies on bit-exact cancellation of X^-1*X, which holds only under the baseline FP model (no FMA contraction)'])

def c09_post(fold):
    # golden cases: one digest per (group, scalar) across all processes, whenever in the process they were computed
    by = {}
    for k in list(fold.counters):
        if k.startswith('golden/'):
            _, g, sc, hx = k.split('/'); by.setdefault(g + '/' + sc, {})[hx] = fold.counters[k]; del fold.counters[k]
    for gs, d in by.items():
        fold.counters['golden-digests/' + gs] = len(d)
        fold.counters['golden-evaluations/' + gs] = sum(d.values())
        if len(d) != 1:
            fold.viol('results-differ-between-processes/' + gs, 1.0, {'digests': d})
REGISTRY['C09'] = numeric('C09', 'c09_pure.cpp', nq=4000, nt=100000, min_shards=4, groups_q=CORE + ['R1', 'BT1', 'BT4'], post=c09_post,
                          rule='17 Jacobian-returning operations x all subsets of their optional outputs ({}, G::_, real matrices, interior blocks of NaN-canary matrices at random offsets) on stratified operands; operands snapshotted bit-wise around every call; '
                               '13 aliased assignment forms vs the unaliased computation; 20 fixed golden operand sets evaluated first thing in half of the processes and in the middle / at the end of every process: one digest per group across all processes; '
                               + RULE_STRATA, assumptions=ASSUME_FP)

def memcheck_bins(src, groups):
    def f(tier):
        return [Bin(src, 'opt', ['MG=' + g, 'MS=double'], name=src.split('.')[0] + '-memcheck-' + g) for g in groups] if tier == 'thorough' else []
    return f


def memcheck_jobs(src, n):
    def f(tier, seed, bs):
        if tier != 'thorough': return []
        return [{'bin': b, 'n': n, 'seed': seed + 7, 'tag': 'memcheck/' + b.defs[0][3:], 'wrap': ['valgrind', '-q', '--error-exitcode=99', '--leak-check=no', '--track-origins=no'], 'args': ['--arg', 'noselfcheck=1']}
                for b in bs if '-memcheck-' in b.name and b.path]
    return f


REGISTRY['C10'] = numeric('C10', 'c10_views.cpp', nq=2500, nt=40000, extra_bins=memcheck_bins('c10_views.cpp', ['SE2', 'SE3', 'SGAL3', 'BT1']), extra_jobs=memcheck_jobs('c10_views.cpp', 1500), groups_q=CORE + ['R1', 'R9', 'BT1', 'BT4'], groups_t=CORE + ['R1', 'R9'] + BUNDLES_T + ['BL0'],
                          rule='~45 non-mutating operations evaluated with 9 combinations of operand kinds {owning, Map, Map<const>} for (X, Y, t) and compared bit for bit with the owning computation; 13 group and 12 tangent mutating members through a '
                               'mutable view; every viewed buffer is, at random, an exactly-sized malloc block (ASan red-zones), the same shifted by one scalar (8-/4-byte-only alignment), or embedded between NaN-payload canaries compared bit for bit '
                               'after each call; copy/move/cross-kind construction and assignment; ' + RULE_STRATA, assumptions=ASSUME_FP + ['ASan red-zones detect reads/writes adjacent to exactly-sized heap blocks; far out-of-bounds accesses could escape them', 'thorough tier: the -O2 build of the same monitor also runs under valgrind memcheck (1500 cases each for SE2, SE3, SGal3 and one bundle) as a second detector'])

REGISTRY['C11'] = numeric('C11', 'c11_bundle.cpp', nq=1500, nt=60000, groups_q=ALL_BUNDLES, groups_t=ALL_BUNDLES, float_groups=['BT3', 'BT5', 'BA'],
                          rule='21 bundle layouts (7 cyclic triples of SO2 SE2 SO3 SE3 SE_2_3 SGal3 R3 = every group first/middle/last, 7 single-element bundles, 3 with repeats, one of all seven + R5, the 3 layouts of the existing tests); per case '
                               '24 bundle operations are computed once and compared bit for bit, element by element, with the standalone element group at offsets from the monitor\'s own prefix sums; 22 Jacobian-like outputs pre-filled with NaN must be '
                               'block-diagonal with exact zeros elsewhere; every generator index of every layout is enumerated; a cell is (operation, layout, element index); ' + RULE_STRATA, assumptions=ASSUME_FP)

def c13_spec():
    def bins(tier):
        return [Bin('c13_construct.cpp', b, ['MS=' + sc]) for sc in ('double', 'float') for b in ('asan', 'asan-ndebug')]
    def run(p, tier, seed, t0):
        bs = bins(tier)
        ok, dt = build_all(bs)
        fail = None
        for b in bs:
            if b.error: fail = (fail or '') + ' monitor %s does not build: %s' % (b.name, b.error.strip().split('\n')[0][:300])
        n = 40000 if tier == 'quick' else 8000000
        jobs = []
        for b in bs:
            if not b.path: continue
            k = 4 if tier == 'quick' else 8
            for sh in range(k):
                jobs.append({'bin': b, 'n': n // k, 'seed': seed * 1000 + sh, 'tag': b.defs[0][3:] + '/' + b.build})
        fold, f2 = run_sharded(p, tier, seed, jobs, 1800 if tier == 'quick' else 14400)
        if f2: fail = (fail or '') + f2
        spec = {'level': 'exploration', 'rule': 'cases cycle through the constructors/setters of SO2, SE2, SO3, SE3, SE_2_3, SGal3, R3 and Bundle(elements): angles from {0, [-pi,pi], +-200 periods, k*pi/2 +- {0,1 ulp,1e-9,1e-6}, 1e-300..1e-3, pi-1e-15..pi-1e-3}, '
                'Euler angles incl. gimbal pitch = +-pi/2 +- 1e-12..1e-3, unit quaternions in both hemispheres, translations 1e-1..1e6; accessors compared exactly where the constructor copies and with model rotations (Rz*Ry*Rx, Rodrigues via the model expm) otherwise; '
                'cast<float>/<double>; 14 validating entry points fed rotation data scaled to norm 1+delta*eps for 18 values of delta (|delta|<=0.95 must be accepted, >=1.05 rejected with invalid_argument, the band in between only recorded), in an assertion-enabled and an NDEBUG build; '
                'normalize() on data scaled by 1e-150..1e150; a cell is (check, scalar, build)',
                'assumptions': ASSUME_FP + ['entry points without validation by design (operator= from an Eigen vector on the concrete group classes, Map construction, coeffs() write access, Bundle from raw coefficients) are not judged']}
        return finish(p, tier, seed, fold, spec, t0, harness_fail=fail, extra_cov={'builds': ['asan (assertions on)', 'asan-ndebug'], 'scalars': ['double', 'float']})
    return {'bins': bins, 'run': run}
REGISTRY['C13'] = c13_spec()

REGISTRY['C12'] = numeric('C12', 'c12_jet.cpp', build='jet', nq=1500, nt=100000, groups_q=['SO2', 'SE2', 'SO3', 'SE3', 'SE23', 'SGAL3', 'R3', 'BT1'], groups_t=['SO2', 'SE2', 'SO3', 'SE3', 'SE23', 'SGAL3', 'R3', 'R1', 'BT1', 'BT4', 'BA'], float_groups=[],
                          shard=5000, n_scale={'BT1': 0.5, 'BT4': 0.3, 'SGAL3': 0.6},
                          rule='operations evaluated over ceres::Jet<double,2*DoF> (stand-in) with unit infinitesimals seeded on every argument; primal parts vs the double instantiation, dual parts of f(X (+) d) (-) f(X) at d=0 vs the analytic Jacobian of the same call; '
                               'manif/ceres functors (manifold Plus/Minus, local parameterisation, objective, constraint) through raw double* and Jet* arrays; argument rotation from every stratum incl. theta=0, below and just above sqrt(eps); '
                               + RULE_STRATA, assumptions=ASSUME_FP + ['ceres::Jet is a stand-in with the same interface (Ceres is not installed); manif/ceres/*.h are compiled unchanged', 'manif/autodiff/*.h is NOT exercised (autodiff library absent; its expression templates cannot be imitated faithfully)',
                                                                       'single-precision agreement with double is observed by C02/C03/C05/C06 float instantiations against the model, not here'])

def c08_spec():
    groups = [('SO2', 'double'), ('SE2', 'double'), ('SO3', 'double'), ('SE3', 'double'), ('SE23', 'double'), ('SGAL3', 'double'), ('BT1', 'double'), ('BT4', 'double'), ('SO3', 'float'), ('SE2', 'float'), ('SE3', 'float')]
    scheds = ['uniform', 'square', 'xxinv', 'tiny', 'pi', 'pingpong']
    def bins(tier):
        return [Bin('c08_history.cpp', b, ['MG=' + g, 'MS=' + sc]) for g, sc in groups for b in ('asan', 'opt')]
    def run(p, tier, seed, t0):
        bs = bins(tier)
        ok, dt = build_all(bs)
        fail = None
        for b in bs:
            if b.error: fail = (fail or '') + ' monitor %s does not build: %s' % (b.name, b.error.strip().split('\n')[0][:200])
        steps = {'asan': 60000, 'opt': 400000} if tier == 'quick' else {'asan': 2000000, 'opt': 20000000}
        nseeds = 1 if tier == 'quick' else 2
        jobs = []
        for b in bs:
            if not b.path: continue
            for sc in scheds:
                for k in range(nseeds):
                    n = steps[b.build] * (3 if sc == 'uniform' else 1)
                    jobs.append({'bin': b, 'n': n, 'seed': seed * 100 + k, 'tag': '/'.join(d.split('=')[1] for d in b.defs[:2]) + '/' + b.build, 'args': ['--arg', 'sched=' + sc]})
        fold, f2 = run_sharded(p, tier, seed, jobs, 1800 if tier == 'quick' else 14400)
        if f2: fail = (fail or '') + f2
        spec = {'level': 'exploration', 'rule': 'histories over a pool of 4 live elements; alphabet of 21 operations (exp, compose, *=, inverse, between, rplus, +=, lplus, 3 interpolations, 4 averages, cast float<->double round trips, Random, '
                're-construction from coeffs, Map write-back, X=X*X^-1*B, ...); schedules: uniform random and five adversarial repetitions (X*=X, X=X*X^-1, += of 1e-12 steps, += of pi-sized steps, inverse ping-pong); after every step every live '
                'element is checked (finite, | ||q||-1 | < Constants::eps in long double); %s steps per (group, schedule) in the assertion-enabled ASan build and %s in the NDEBUG -O2 build; a cell is (group, schedule, operation) actually executed; '
                'window maxima (1e5 steps) are recorded to show the deviation has no trend' % (steps['asan'], steps['opt']),
                'assumptions': ASSUME_FP + ['coordinates are kept below 1e6 by rescaling the translation-like coefficients (overflow of translations is not what is claimed)']}
        cov = header_coverage(p, [{'src': 'c08_history.cpp', 'defs': ['MG=' + g, 'MS=double'], 'n': 200000, 'seed': seed, 'args': ['--arg', 'sched=' + sc]} for g in ('SO2', 'SE2', 'SO3', 'SE3') for sc in ('uniform', 'square')])
        return finish(p, tier, seed, fold, spec, t0, harness_fail=fail, extra_cov={'anchored_header_line_coverage': cov, 'groups': ['%s/%s' % gs for gs in groups], 'schedules': scheds, 'builds': ['asan (assertions on)', 'opt (-O2 -DNDEBUG)']})
    return {'bins': bins, 'run': run}
REGISTRY['C08'] = c08_spec()

def c14_spec():
    import re, glob as _glob, shutil, json
    from concurrent.futures import ThreadPoolExecutor
    import check as CK
    def bins(tier):
        return [Bin('c14_threads.cpp', 'tsan', [], name='c14_threads-tsan', link_model=False)]
    def run(p, tier, seed, t0):
        bs = bins(tier)
        ok, dt = build_all(bs)
        b = bs[0]
        fold = Fold(); fail = None
        if not b.path:
            fold_ = fold
            return finish(p, tier, seed, fold, {'level': 'exploration', 'rule': ''}, t0, harness_fail='monitor does not build: ' + (b.error or '')[-400:])
        rundir = os.path.join(CK.CACHE, 'run', '%s-%d' % (p, os.getpid()))
        if os.path.isdir(rundir): shutil.rmtree(rundir)
        os.makedirs(rundir)
        launches = 48 if tier == 'quick' else 4000
        tcounts = [2, 4, 8, 16]
        jobs = [(i, tcounts[i % 4]) for i in range(launches)]
        def one(job):
            i, nt = job
            log = os.path.join(rundir, '%05d.jsonl' % i)
            env = {'TSAN_OPTIONS': 'halt_on_error=0:report_signal_unsafe=0:log_path=%s' % os.path.join(rundir, 'tsan_%05d' % i)}
            cmd = [b.path, '--seed', str(seed * 100000 + i), '--out', log, '--arg', 'threads=%d' % nt, '--arg', 'rounds=%d' % (2 if tier == 'quick' else 3), '--arg', 'yield=%d' % (i % 3 != 0)]
            rc, out, to = CK.run_proc(cmd, log, 600, env=env)
            if to: rc, out, to = CK.run_proc(cmd, log, 600, env=env)
            return i, nt, cmd, log, rc, out, to
        # 4 launches at a time: each launch itself uses up to 16 threads; oversubscription is wanted (it varies the interleavings)
        with ThreadPoolExecutor(6) as ex:
            results = list(ex.map(one, jobs))
        sigs = set()
        for i, nt, cmd, log, rc, out, to in results:
            if to: fail = (fail or '') + ' watchdog fired twice: ' + ' '.join(cmd); continue
            if rc not in (0, 66):
                fold.viol('crash/c14_threads/rc%d' % rc, float('inf'), {'cmd': ' '.join(cmd), 'output_tail': out[-1500:]})
            if not fold.add_file(log) and rc in (0, 66): fail = (fail or '') + ' no summary from ' + ' '.join(cmd)
        for k in list(fold.counters):
            if k.startswith('sig/'): sigs.add(k[4:]); del fold.counters[k]
        # ThreadSanitizer reports, counted from the log files (not from exit codes), deduplicated by the innermost manif frames of both stacks
        nrep = 0; dedup = {}
        for f in sorted(_glob.glob(os.path.join(rundir, 'tsan_*'))):
            txt = open(f, errors='replace').read()
            for blk in txt.split('==================')[0:]:
                if 'WARNING: ThreadSanitizer' not in blk: continue
                nrep += 1
                kind = re.search(r'WARNING: ThreadSanitizer: ([^(\n]+)', blk).group(1).strip().replace(' ', '-')
                frames = re.findall(r'#\d+ (manif::[^\n]*?) (' + re.escape(CK.REPO) + r'/include/[^ \n]+)', blk)
                inrepo = (CK.REPO + '/include') in blk
                where = sorted(set(re.sub(r'<.*', '', fr[0])[:50] + '@' + os.path.basename(fr[1]).split(':')[0] for fr in frames[:1] + frames[-1:])) if frames else ['no-manif-frame']
                key = 'tsan-%s/%s' % (kind, '+'.join(where)[:120])
                d = dedup.setdefault(key, {'n': 0, 'first': blk[:3000], 'inrepo': inrepo}); d['n'] += 1
        for key, d in dedup.items():
            if d['inrepo']:
                for _ in range(d['n']): fold.viol(key, 1.0, {'report': d['first'], 'count': d['n']})
            else:
                fold.notes.append('ThreadSanitizer report without a frame in /repo/include (not attributed to manif): ' + key)
        shutil.rmtree(rundir, ignore_errors=True)
        spec = {'level': 'exploration', 'rule': '%d launches of the TSan-instrumented monitor with %s threads (round robin), each launch releasing its threads from a spinning barrier so that the first use in the process of every function-local static '
                '(Identity, setIdentity zero, Zero, every Generator table, InnerWeights, the constant Jacobians/adjoints of SO2 and Rn) of 11 group instantiations happens concurrently; every thread then runs 22 const operations per group on shared const '
                'elements, tangents and Map<const> views in a per-thread shuffled order with random sched_yield/nanosleep injections (off in every third launch); per-thread results are compared bit for bit with a single-threaded run; a cell is (group, thread count); '
                'distinct first-use schedules are counted through an atomic ticket taken outside the library calls' % (launches, tcounts),
                'assumptions': ['ThreadSanitizer (gcc 12) sees all synchronisation involved (C++11 static-init guards are intercepted)', 'Random()/setRandom() use rand() and are not const operations: excluded']}
        return finish(p, tier, seed, fold, spec, t0, harness_fail=fail, extra_cov={'launches': launches, 'thread_counts': tcounts, 'tsan_reports': nrep, 'tsan_report_keys': sorted(dedup)[:20],
                                                                                  'distinct_first_use_signatures': len(sigs)})
    return {'bins': bins, 'run': run}
REGISTRY['C14'] = c14_spec()

def c17_spec():
    groups = ['SE2', 'SO3', 'SE3', 'SGAL3', 'R3', 'BT1']
    def bins(tier):
        return [Bin('c17_decasteljau.cpp', 'asan', ['MG=' + g, 'MS=double']) for g in groups] + [Bin('c17_decasteljau.cpp', 'asan', ['MG=SE2', 'MS=float'])]
    def run(p, tier, seed, t0):
        bs = bins(tier)
        ok, dt = build_all(bs)
        fail = None
        for b in bs:
            if b.error: fail = (fail or '') + ' monitor %s does not build: %s' % (b.name, b.error.strip().split('\n')[0][:200])
        par = dict(Nmax=10, kmax=2, ntraj=1, nshard=2) if tier == 'quick' else dict(Nmax=16, kmax=4, ntraj=3, nshard=8)
        jobs = []
        for b in bs:
            if not b.path: continue
            for sh in range(par['nshard']):
                jobs.append({'bin': b, 'n': 0, 'seed': seed, 'tag': '/'.join(d.split('=')[1] for d in b.defs[:2]),
                             'args': ['--arg', 'Nmax=%d' % par['Nmax'], '--arg', 'kmax=%d' % par['kmax'], '--arg', 'ntraj=%d' % par['ntraj'], '--arg', 'shard=%d/%d' % (sh, par['nshard'])]})
        fold, f2 = run_sharded(p, tier, seed, jobs, 1800 if tier == 'quick' else 14400)
        if f2: fail = (fail or '') + f2
        spec = {'level': 'exploration', 'rule': 'every (N, degree, k, closed) with 3<=N<=%(Nmax)d, 2<=degree<=N, 1<=k<=%(kmax)d, closed in {0,1} is enumerated (exhaustive over that box) x %(ntraj)d trajectories per '
                'configuration (smooth / identical points / steps of 1..2.6 rad / steps of 1e-9), plus 28 inputs that must raise (N<3, degree>N, k=0); each configuration runs in its own forked child under '
                'ASan+UBSan+_GLIBCXX_ASSERTIONS with a 30 s watchdog; a cell is one configuration; every returned point is compared with a reference De Casteljau evaluated on the long-double model' % par,
                'assumptions': ASSUME_FP + ['a child that exceeds 30 s twice is reported as non-termination (a correct run of the largest configuration takes < 0.5 s)']}
        return finish(p, tier, seed, fold, spec, t0, harness_fail=fail, extra_cov={'exhaustive': True, 'box': par, 'groups': [b.name for b in bs]})
    return {'bins': bins, 'run': run}
REGISTRY['C17'] = c17_spec()

def c19_spec():
    import re, json, hashlib, subprocess, shutil
    from concurrent.futures import ThreadPoolExecutor
    import check as CK
    GROUPS_Q = ['SO2', 'SE2', 'SO3', 'SE3', 'SE23', 'SGAL3', 'R1', 'R3', 'R9', 'BA', 'BT3', 'BT5']
    GROUPS_T = GROUPS_Q + ['BT0', 'BT1', 'BR2', 'BS5', 'BL0']
    FLAGS = CK.COMMON + CK.BUILDS['asan']

    def bins(tier):
        return []

    def compile_tu(src_path, out, defs, syntax_only=False, std='-std=c++14'):
        flags = [f for f in FLAGS if not f.startswith('-std=')] + [std]
        if syntax_only:
            flags = [f for f in flags if not f.startswith('-fsanitize') and f != '-fno-sanitize-recover=all' and f != '-O1'] + ['-fsyntax-only']
        cmd = ['g++'] + flags + ['-D' + d for d in defs] + [src_path] + ([] if syntax_only else ['-o', out])
        r = CK.sh(cmd)
        return r.returncode, r.stdout

    def cells_from_errors(err, src_text):
        """map compiler diagnostics to the generated cell functions they occur in (via the TU line numbers in the instantiation traces)"""
        starts = []  # (line, entry, storage)
        for ln, line in enumerate(src_text.split('\n'), 1):
            m = re.match(r'static void cell_(\d+)_(\w+)\(Fixture& F\)', line)
            if m: starts.append((ln, int(m.group(1)), m.group(2)))
        bad = {}
        blocks = re.split(r'\n(?=\S[^\n]*: (?:In |error))', err)
        for b in re.split(r'\n(?=In file included|\S+: In )', err):
            if 'error' not in b: continue
            lines = [int(x) for x in re.findall(r'c19_[A-Za-z0-9_]+\.cpp:(\d+):', b)]
            first = (re.findall(r'error: ([^\n]*)', b) or [''])[0][:300]
            for l in lines:
                cand = [st for st in starts if st[0] <= l]
                if cand:
                    _, k, stg = cand[-1]
                    bad.setdefault((k, stg), first)
        # linker diagnostics ("compiles and links"): ld names the function in which the unresolved symbol is referenced
        cur = None
        for line in err.split('\n'):
            m = re.search(r"in function `cell_(\d+)_(\w+)\(Fixture&\)'", line)
            if m: cur = (int(m.group(1)), m.group(2))
            elif re.search(r"in function `", line): cur = None
            m2 = re.search(r"undefined reference to `([^']*)'", line)
            if m2 and cur is not None: bad.setdefault(cur, 'does not link: undefined reference to ' + m2.group(1)[:200])
        return bad

    def run(p, tier, seed, t0):
        sys_path = os.path.join(CK.ROOT, 'harness')
        import importlib.util
        spec_ = importlib.util.spec_from_file_location('gen_c19', os.path.join(sys_path, 'gen_c19.py'))
        gen = importlib.util.module_from_spec(spec_); spec_.loader.exec_module(gen)
        allcells = gen.cells()
        names = {k: n for k, n, _, _, _ in allcells}
        groups = GROUPS_Q if tier == 'quick' else GROUPS_T
        combos = [(g, sc) for g in groups for sc in ('double', 'float')]
        wd = os.path.join(CK.CACHE, 'c19'); os.makedirs(wd, exist_ok=True)   # binaries are keyed by content hash, shared between runs
        fold = Fold(); fail = None
        th = CK.tree_hash()

        def one(gs):
            g, sc = gs
            tag = '%s_%s' % (g, sc)
            res = {'g': g, 's': sc, 'not_instantiable': {}, 'exec': {}, 'mismatch': [], 'crash': [], 'notes': []}
            exclude = set()
            binp = None
            for it in range(8):
                src = gen.emit(exclude=exclude)
                key = hashlib.sha256((th + src + ' '.join(FLAGS)).encode()).hexdigest()[:16]
                srcp = os.path.join(wd, 'c19_%s.cpp' % tag); open(srcp, 'w').write(src)
                binp = os.path.join(wd, 'c19_%s-%s' % (tag, key))
                if os.path.exists(binp): break
                for old in glob_old(wd, 'c19_%s-' % tag): os.remove(old)
                rc, out = compile_tu(srcp, binp, ['MG=' + g, 'MS=' + sc])
                if rc == 0: break
                binp = None
                bad = cells_from_errors(out, src)
                new = {(names[k], stg): msg for (k, stg), msg in bad.items() if (names[k], stg) not in exclude}
                if not new:
                    # fall back: one syntax-only compile per cell still present
                    res['notes'].append('diagnostics could not be attributed; per-cell syntax check')
                    for k, n, kind, stg, code in allcells:
                        if (n, stg) in exclude: continue
                        sp = os.path.join(wd, 'c19_%s_cell.cpp' % tag); open(sp, 'w').write(gen.emit(only=(n, stg)))
                        rc2, out2 = compile_tu(sp, None, ['MG=' + g, 'MS=' + sc], syntax_only=True)
                        if rc2 != 0: new[(n, stg)] = (re.findall(r'error: ([^\n]*)', out2) or ['does not compile'])[0][:300]
                    if not new:
                        res['notes'].append('TU does not build but every cell does: ' + out[-400:]); break
                for cell, msg in new.items():
                    res['not_instantiable'][cell] = msg; exclude.add(cell)
            # second compiler: clang++ 14 must accept every cell that g++ accepted (two-phase lookup / access differences)
            if shutil.which('clang++-14') or shutil.which('clang++'):
                cl = shutil.which('clang++-14') or shutil.which('clang++')
                flags = [f for f in FLAGS if not f.startswith('-fsanitize') and f not in ('-fno-sanitize-recover=all', '-O1', '-fno-omit-frame-pointer')]
                srcp2 = os.path.join(wd, 'c19_%s.cpp' % tag)
                r2 = CK.sh([cl] + flags + ['-fsyntax-only', '-DMG=' + g, '-DMS=' + sc, srcp2])
                res['clang'] = r2.returncode
                if r2.returncode != 0:
                    bad2 = cells_from_errors(r2.stdout, open(srcp2).read())
                    if not bad2: res['clang_unattributed'] = (re.findall(r'error: ([^\n]*)', r2.stdout) or ['?'])[0][:300]
                    for (k, stg), msg in bad2.items(): res.setdefault('clang_bad', {})[(names[k], stg)] = msg
            if not binp or not os.path.exists(binp):
                res['notes'].append('no executable'); return res
            # execute; a crash is attributed to the cell after the last one reported, which is then excluded
            for it in range(6):
                outp = os.path.join(wd, 'c19_%s.out' % tag)
                rc, out, to = CK.run_proc([binp, outp], None, 600)
                lines = [json.loads(l) for l in open(outp)] if os.path.exists(outp) else []
                done = [l for l in lines if l.get('t') == 'done']
                for l in lines:
                    if l.get('t') == 'exec': res['exec'][(l['entry'], l['storage'])] = l
                    if l.get('t') == 'mismatch': res['mismatch'].append((l['entry'], l['storage']))
                if done and rc == 0: break
                order = [(n, stg) for k, n, kind, stg, code in allcells if (n, stg) not in exclude]
                seen = [(l['entry'], l['storage']) for l in lines if l.get('t') == 'exec']
                nxt = order[len(seen)] if len(seen) < len(order) else None
                res['crash'].append((nxt, rc, out[-1500:]))
                if nxt is None: break
                exclude.add(nxt)
                src = gen.emit(exclude=exclude); srcp = os.path.join(wd, 'c19_%s.cpp' % tag); open(srcp, 'w').write(src)
                binp = os.path.join(wd, 'c19_%s-rerun%d' % (tag, it))
                rc2, out2 = compile_tu(srcp, binp, ['MG=' + g, 'MS=' + sc])
                if rc2 != 0: res['notes'].append('rebuild after crash failed'); break
            return res

        def glob_old(d, prefix):
            import glob as _g
            return [f for f in _g.glob(os.path.join(d, prefix + '*')) if re.search(r'-[0-9a-f]{16}$|-rerun\d$', f)]

        with ThreadPoolExecutor(CK.NCPU) as ex:
            results = list(ex.map(one, combos))
        total_cells = 0
        for r in results:
            gs = '%s/%s' % (r['g'], r['s'])
            for k, n, kind, stg, code in allcells:
                total_cells += 1
                cellkey = 'cell/%s/%s/%s' % (gs, stg, n)
                if (n, stg) in r['exec']:
                    c = fold.cells.setdefault(cellkey, {'n': 0, 'nontrivial': 0, 'maxerr': 0.0}); c['n'] += 1; c['nontrivial'] += 1; fold.evals += 1
                    if not r['exec'][(n, stg)]['finite']:
                        fold.viol('nonfinite-result/%s/%s/%s' % (gs, stg, n), 1.0, {'group': gs, 'entry': n, 'storage': stg})
            for (n, stg), msg in r['not_instantiable'].items():
                fold.viol('instantiate/%s/%s/%s' % (gs, stg, n), 1.0, {'group': gs, 'entry': n, 'storage': stg, 'first_diagnostic': msg})
            for (n, stg), msg in r.get('clang_bad', {}).items():
                fold.viol('instantiate-clang/%s/%s/%s' % (gs, stg, n), 1.0, {'group': gs, 'entry': n, 'storage': stg, 'compiler': 'clang++ 14', 'first_diagnostic': msg})
            if r.get('clang_unattributed'):
                fold.viol('instantiate-clang/%s/unattributed' % gs, 1.0, {'group': gs, 'compiler': 'clang++ 14', 'first_diagnostic': r['clang_unattributed']})
            if 'clang' in r: fold.counters['clang-syntax-pass/' + ('ok' if r['clang'] == 0 else 'errors')] = fold.counters.get('clang-syntax-pass/' + ('ok' if r['clang'] == 0 else 'errors'), 0) + 1
            for (n, stg) in r['mismatch']:
                fold.viol('storage-mismatch/%s/%s/%s' % (gs, stg, n), 1.0, {'group': gs, 'entry': n, 'storage': stg, 'what': 'result differs bit-wise from the owning instantiation'})
            for (cell, rc, out) in r['crash']:
                kind = 'crash'
                m = re.search(r'ERROR: AddressSanitizer: (\S+)', out)
                if m: kind = 'asan-' + m.group(1)
                elif 'runtime error' in out: kind = 'ubsan'
                elif 'terminate called' in out: kind = 'uncaught-exception'
                fold.viol('%s/%s/%s' % (kind, gs, '%s/%s' % (cell[1], cell[0]) if cell else 'unknown-cell'), float('inf'), {'group': gs, 'cell': cell, 'rc': rc, 'output_tail': out})
            missing = [(n, stg) for k, n, kind, stg, code in allcells if (n, stg) not in r['exec'] and (n, stg) not in r['not_instantiable'] and (n, stg) not in [c[0] for c in r['crash']]]
            if missing or r['notes']:
                fail = (fail or '') + ' %s: %d cells neither executed nor diagnosed %s;' % (gs, len(missing), '; '.join(r['notes'])[:300])
            fold.procs += 1
        fold.samples = [{'group': 'SE3/double', 'entry': n, 'storage': stg, 'code': code} for k, n, kind, stg, code in allcells[:3]] + \
                       [{'group': 'BT3/float', 'entry': n, 'storage': stg, 'code': code} for k, n, kind, stg, code in allcells[200:202]]
        spec = {'level': 'exploration', 'rule': 'the finite matrix {%d documented API entries} x {storage kinds applicable: owning, Map, Map<const>} = %d cells per (group, scalar), x %d (group, scalar) pairs, is enumerated '
                'completely; each cell is a generated function that is compiled, executed under ASan+UBSan on fixed operands, and whose result digest must equal the owning cell bit for bit; a cell is non-trivial when it was '
                'executed; a cell that cannot be instantiated is attributed through the instantiation trace of the compiler diagnostics and reported with its first diagnostic' % (len(gen.ENTRIES), len(allcells), len(combos)),
                'assumptions': ['g++ 12.2 -std=c++14 (the harness needs C++14; the library itself is C++11); every TU is additionally passed through clang++ 14 -fsyntax-only', 'the compile step is a build-time observation (DESIGN.md 4/C19)']}
        return finish(p, tier, seed, fold, spec, t0, harness_fail=fail, extra_cov={'exhaustive': True, 'cells_in_matrix': total_cells, 'groups': ['%s/%s' % c for c in combos], 'entries': len(gen.ENTRIES)})

    return {'bins': bins, 'run': run}
REGISTRY['C19'] = c19_spec()

# ------------------------------------------------------------------------------------------------
# MANIFEST metadata
# ------------------------------------------------------------------------------------------------
ENGINES = [
    {'name': 'dual-number monitor', 'path': '/verif/harness/c12_jet.cpp', 'serves_properties': ['C12'], 'kind_free_text': 'stand-in ceres::Jet (stubs/ceres/jet.h) so that manif/ceres/*.h compile unchanged; dual parts are the observed derivative'},
    {'name': 'bit-exact differential monitor', 'path': '/verif/harness/c09_pure.cpp', 'serves_properties': ['C09', 'C10', 'C11'], 'kind_free_text': 'same operands through different call forms / storage kinds / output subsets must give identical bits; guard zones and sanitizers watch memory'},
    {'name': 'tsan launcher', 'path': '/verif/harness/c14_threads.cpp', 'serves_properties': ['C14'], 'kind_free_text': 'ThreadSanitizer build launched many times; reports parsed from log_path files'},
    {'name': 'history monitor', 'path': '/verif/harness/c08_history.cpp', 'serves_properties': ['C08'], 'kind_free_text': 'online per-step invariant checker over random/adversarial operation sequences'},
    {'name': 'child-per-case enumerator', 'path': '/verif/harness/c17_decasteljau.cpp', 'serves_properties': ['C17'], 'kind_free_text': 'fork per configuration, parent watchdog, sanitizer + assertion aborts are verdicts'},
    {'name': 'api-matrix builder', 'path': '/verif/harness/gen_c19.py', 'serves_properties': ['C19'], 'kind_free_text': 'generates one TU per (group, scalar) with one function per API cell; localises non-instantiable cells from compiler traces; executes the rest under ASan/UBSan'},
    {'name': 'ref-model differential monitor', 'path': '/verif/harness/model.cpp', 'serves_properties': ['C01', 'C02', 'C03', 'C04', 'C05', 'C06'],
     'kind_free_text': 'independent long-double matrix-Lie-group model (typed-in generators, Taylor expm, Shepperd-based log, FD Jacobians) used as oracle over stratified random workloads under ASan+UBSan'},
]
NOT_APPLICABLE = {}
NOTE_NUM = ('Holds on the executions described in the evidence file, nothing more. Trusted base: the reference model (self-checked at every process start), '
            'gcc 12 / Eigen 3.4, x86-64 SSE2 arithmetic without FMA contraction. Tolerances are fixed in DESIGN.md section 4 (>=10x the worst error observed on the repaired tree).')
MANIFEST_META = {
    'C01': dict(engine='ref-model differential monitor', design_ref='DESIGN.md 4/C01', technique='differential runtime monitor vs independent long-double model under ASan/UBSan',
                text='Every compose/inverse/identity/act/transform result of ~2e4 (quick) to 1e6 (thorough) stratified operand triples per group is compared with the product / inverse / action of reference matrices built from the coefficient vectors; held-on-observed-executions assurance, which is what a pure numerical function over a continuous domain admits. The exact clause is observed with == over an exact-rational scalar (rational unit quaternions of both hemispheres) that throws on any transcendental or rounding step. A few per cent of the double operands carry rotation data off-norm by 0.45 eps (inside the acceptance band) so that the renormalisation branch of compose is exercised in both hemispheres, and 3 per cent are given by exact coefficients (pure quaternions, signed zeros).',
                note=NOTE_NUM),
    'C02': dict(engine='ref-model differential monitor', design_ref='DESIGN.md 4/C02', technique='differential runtime monitor vs independent long-double matrix exponential under ASan/UBSan',
                text='t.exp() is compared with a scaling-and-squaring Taylor expm of the reference hat(t) over the full rotation-magnitude axis (0, denormal, every candidate switch-over +-ulp, dense log sweep, near pi, beyond pi) x independent linear magnitude 0..1e6, all groups, double and float; hat and generators are compared exactly.',
                note=NOTE_NUM),
    'C03': dict(engine='ref-model differential monitor', design_ref='DESIGN.md 4/C03', technique='differential runtime monitor over six element-production routes vs model exp/log',
                text='X.log() is checked (finite, principal, exp_ref(log X)=X, equal to the model logarithm, log(q)=log(-q), t.exp().log()=t) on elements produced by six routes including both quaternion hemispheres and products of near-pi rotations (angle 2pi-eps), which no unit test generates. A separate route feeds elements given by exact coefficients (w = +0/-0 half turns, signed zeros, 3-4-5 values), and the rotation part of exp(log X) = X is judged on its own at 128 ulp.',
                note=NOTE_NUM + ' Near pi the tolerance carries the documented conditioning term 16u/(pi-theta).'),
    'C04': dict(engine='ref-model differential monitor', design_ref='DESIGN.md 4/C04', technique='runtime monitor: definitions vs long-double model + bit-exact differential comparison of 60 alias forms (values and Jacobian routing)',
                text='rplus/lplus/rminus/lminus/between are compared with the compositions they are documented to be, evaluated on the reference model, incl. the round trips (X+t)-X=t and X+(Y-X)=Y up to relative rotation pi-1e-6; every alias (plus/minus, operators, tangent-side forms, the functions.h facade incl. its Jacobian outputs, Map/Map<const> operands) must return bit-identical coefficients to the canonical member on the same operands.',
                note=NOTE_NUM + ' Bit-identity of forwards is a sound expectation under the baseline FP model (no FMA contraction); measured 0 differences on the unchanged tree.'),
    'C05': dict(engine='ref-model differential monitor', design_ref='DESIGN.md 4/C05', technique='runtime monitor: analytic Jacobians vs 4th-order central differences of the definition on the long-double model',
                text='Each returned Jacobian of inverse, log, exp, compose, between, rplus, lplus, rminus, lminus, act (w.r.t. every argument) is compared with the derivative of f(X (+) d) (-) f(X) computed on the reference model, at the 1e-6 relative bound the property states; argument rotation and relative rotation are swept independently from 0 to pi-1e-6, translations 0..1e6. A disagreement is judged only if the oracle agrees with itself at h/2 and 2h (otherwise counted as oracle-unresolved). In a third of the cases the two Jacobians of a two-output operation are requested one at a time; log-type Jacobians carry the allowance min(0.1 u cond(Jr), 10 tol).',
                note=NOTE_NUM + ' Samples within ~3e-6 of the cut locus with |time*velocity| >= 1e8 can be oracle-unresolved; they are counted in the evidence, not judged.'),
    'C07': dict(engine='ref-model differential monitor', design_ref='DESIGN.md 4/C07', technique='exhaustive enumeration of generator indices + runtime monitor of algebra identities vs typed-in generator tables',
                text='All generator indices of all groups, R1..R9 and 21 bundle layouts are enumerated and compared entry-wise (exact) with the documented tables; out-of-range indices must raise invalid_argument; hat/vee/bracket/inner/InnerWeights identities are checked on random tangents, exactly on small-integer tangents (where floating point is exact), within a few ulp otherwise.',
                note=NOTE_NUM + ' The exact-arithmetic clause is observed twice: on integer-valued tangents in double (all operations exact) and with == over the exact-rational scalar of harness/rational.h (__int128 fractions; overflow = inconclusive, counted).'),
    'C06': dict(engine='ref-model differential monitor', design_ref='DESIGN.md 4/C06', technique='runtime monitor vs series-defined Jr (augmented expm of ad), model Adj/ad',
                text='rjac/ljac are compared with sum_k (-ad)^k/(k+1)! evaluated as a block of expm([[-ad,I],[0,0]]) (no small-angle case analysis in the oracle), the inverses with the model inverse and as products, Adj/adj/smallAdj with their definitions on the reference matrices, at the 1e-6 relative bound the property states, densely in (sqrt(eps),1e-2) where the defects were. Every 8th tangent has its rotation angle in (pi, 4pi) away from the multiples of 2pi.',
                note=NOTE_NUM),
    'C08': dict(engine='history monitor', design_ref='DESIGN.md 4/C08', technique='online invariant monitor over long random and adversarial operation histories (ASan+assertions build and NDEBUG -O2 build)',
                text='After every step of histories of 6e4..2e7 steps per (group, schedule) every live element is checked against the library\'s own acceptance threshold recomputed in long double; the bound is enforced at each step, so it is independent of the history length by construction, and 1e5-step window maxima are recorded to show there is no trend; with assertions on, any escaping exception is a violation.',
                note='Histories are random draws from a 21-operation alphabet plus five adversarial single-operation schedules; held on the histories executed. ' + NOTE_NUM),
    'C09': dict(engine='bit-exact differential monitor', design_ref='DESIGN.md 4/C09', technique='bit-exact differential runtime monitor: all subsets of optional outputs, NaN-canary block outputs, operand snapshots, aliasing, cross-process golden digests',
                text='Every Jacobian-returning operation is called with every subset of its optional outputs on the same operands; values and Jacobians must be bit-identical across subsets, an output bound to an interior block of a NaN-canary matrix must write exactly that block, operands are compared bit-wise before/after, 13 aliased assignment forms must equal the unaliased computation, and fixed golden cases must produce one digest whether they are the first library activity of a process or follow thousands of other calls.',
                note='Bit-identity is a sound expectation for pure forwards under the baseline FP model; held on the operand sets and call orders executed. ' + NOTE_NUM),
    'C10': dict(engine='bit-exact differential monitor', design_ref='DESIGN.md 4/C10', technique='bit-exact differential runtime monitor over operand storage kinds with guard zones (NaN canaries) and ASan red-zones on exactly-sized blocks',
                text='About 45 operations are evaluated for 9 combinations of {owning, Map, Map<const>} operand kinds and must reproduce the owning computation bit for bit; 25 mutating members executed through mutable views must change exactly the viewed RepSize/DoF scalars: buffers are exactly-sized heap blocks (ASan red-zones), misaligned variants, or embedded between canaries compared bit-wise after every call. The whole assignment family {owning, Map} x {owning, Map, Map<const>, Eigen} x {lvalue, rvalue} is judged on raw buffer bytes; views must view (data() is the user pointer, const views created before a write show the new coefficients); sub-view to sub-view assignment through asSO3() and element<i>().',
                note='ASan red-zones catch adjacent overruns only; intra-buffer errors are caught by the canaries and by value comparison. ' + NOTE_NUM),
    'C11': dict(engine='bit-exact differential monitor', design_ref='DESIGN.md 4/C11', technique='bit-exact differential runtime monitor: bundle operation vs per-element operation at independently computed offsets; NaN-prefilled Jacobians',
                text='For 21 layouts each bundle operation (exp, log, compose, inverse, between, rplus, lplus, rminus, lminus, act with both Jacobians, adj, hat, vee, rjac/ljac and inverses, smallAdj, bracket, generators, inner weights, Random, transform) is compared bit for bit with the same operation on each standalone element placed at the offset given by the monitor\'s own prefix sums; Jacobians pre-filled with NaN must come back block-diagonal with exact zeros elsewhere; element<i>() must alias exactly the i-th coefficients. Each Jacobian is also requested alone; random bundle tangents must have the support of the element-wise draws.',
                note='Layouts are a fixed list covering every element group in first/middle/last position, repeats and single elements; inputs are random draws per layout. ' + NOTE_NUM),
    'C12': dict(engine='dual-number monitor', design_ref='DESIGN.md 4/C12', technique='runtime monitor over a forward-mode dual-number scalar: primal vs double, dual parts vs analytic Jacobians, functors through raw pointers',
                text='manif is instantiated over a ceres::Jet stand-in (manif/ceres headers compiled unchanged); for inverse, log, exp, rplus, lplus, compose, between, rminus, lminus and act the primal part must equal the double result (1e-11 of the operand scale, which admits the branch discontinuity exactly at a switch-over) and the dual parts of f(X (+) d) (-) f(X) at d=0 must reproduce the analytic Jacobian (1e-6 relative) for argument rotations at 0, below and just above the small-angle switch, generic and near pi; the manifold / local-parameterisation / objective / constraint functors are driven through raw double* and Jet* arrays and compared in value and derivative.',
                note='The autodiff (autodiff::dual) glue cannot be executed here (library absent): a stated coverage gap. The Jet is a stand-in for ceres::Jet with the same interface. ' + NOTE_NUM),
    'C13': dict(engine='ref-model differential monitor', design_ref='DESIGN.md 4/C13', technique='runtime monitor of constructors/accessors vs model rotations, and of the validation threshold in an assertion-enabled and an NDEBUG build',
                text='Every constructor and setter of every group is fed angles over +-200 periods and at k*pi/2 +- ulp, gimbal Euler angles, quaternions of both hemispheres and large translations; accessors must return the supplied quantities (exactly where the constructor copies), rotation() must equal the model rotation (Rz*Ry*Rx, Rodrigues) and be orthonormal with det +1, feeding accessors back must reproduce the transformation, cast<> must give an element accepted by the target type; 14 validating entry points must accept norm 1+-0.95 eps and reject 1+-1.05 eps with invalid_argument when assertions are on, and reject nothing with NDEBUG; normalize() must make data scaled by 1e+-150 acceptable.',
                note='The band (0.95,1.05) eps around the threshold is sampled and only recorded (the computed norm carries ~2u of round-off). ' + NOTE_NUM),
    'C14': dict(engine='tsan launcher', design_ref='DESIGN.md 4/C14', technique='ThreadSanitizer over many process launches with barrier-released concurrent first use of every static + bit-exact comparison with a single-threaded run',
                text='Each launch releases 2..16 threads from a spinning barrier into the first use in the process of every function-local static of 11 group instantiations and then into 22 const operations per group on shared const elements, tangents and Map<const> views; ThreadSanitizer reports with a frame in /repo/include are violations (counted from log files, deduplicated by innermost manif frames), and every thread must reproduce the single-threaded values bit for bit.',
                note='Schedules: 48 (quick) / 4000 (thorough) launches, each one first-use schedule (distinct schedule signatures are counted in the evidence); held on those schedules only. TSan sees only what gcc instruments; Random()/setRandom() are excluded (rand()).', ),
    'C15': dict(engine='ref-model differential monitor', design_ref='DESIGN.md 4/C15', technique='runtime monitor: end points, rejection of out-of-range parameters, SLERP vs model geodesic and left translation',
                text='For three methods and arbitrary end velocities the end points are compared with A and B on the model, ten out-of-range parameters (incl. NaN, +-inf, -denorm_min, nextafter(1)) must raise, SLERP is compared with A*exp(t*log(A^-1 B)) evaluated on the model and with its left translate, and smoothing_phi is checked on a 20000-point grid per degree.',
                note=NOTE_NUM + ' Out-of-range parameters are judged in the scalar type of the group (1+1e-9 is exactly 1 in float).'),
    'C16': dict(engine='ref-model differential monitor', design_ref='DESIGN.md 4/C16', technique='runtime monitor: stationarity residual with the model logarithm, permutation and translation equivariance, validity',
                text='Clouds of 1..50 points within geodesic radius <=0.5 of centres from every rotation stratum (incl. at the cut locus of log from the identity): result valid and finite, identical points returned unchanged, empty set raises; for the bi-invariant and both Frechet means the model residual (1/n) sum log(m^-1 X_i) is below 4*sqrt(eps) - which also observes that the iteration stopped by convergence within its budget - and the result is invariant under permutation and commutes with left/right translation; the weighted average commutes with left translation.',
                note=NOTE_NUM + ' Translations L, R have tangent coordinates in [-1,1] so that Adj does not amplify the stopping tolerance; centres have coordinates up to 1e3.'),
    'C17': dict(engine='child-per-case enumerator', design_ref='DESIGN.md 4/C17', technique='exhaustive enumeration of (N,degree,k,closed) with one sanitized child process per configuration under a watchdog; reference De Casteljau on the model',
                text='Every configuration of the stated box runs decasteljau in its own forked child under ASan+UBSan+_GLIBCXX_ASSERTIONS; non-termination (watchdog, after one re-run), aborts, out-of-range indices and sanitizer reports are violations; size, window ends and every curve point are compared with a reference evaluation on the long-double model; inputs that must raise are enumerated too.',
                note='Exhaustive over the box only (quick N<=10,k<=2; thorough N<=16,k<=4); trajectories are 1-3 random draws per configuration. ' + NOTE_NUM),
    'C18': dict(engine='ref-model differential monitor', design_ref='DESIGN.md 4/C18', technique='runtime monitor of the tolerance relation: reflexivity at large coordinates, double cover, controlled tangent distance around eps',
                text='Reflexivity of isApprox and == is observed on elements with coordinates up to 1e9 and on the pair (q,-q); Y = X (+) d with ||d||_inf = eps/100 must compare equal and with 100 eps unequal, in both argument orders, for eps from 1e-12 to 1e-2 wherever the difference is resolvable in the scalar; tangent isApprox is checked as an absolute test against zero and a relative test otherwise for norms 1e-12..1e9.',
                note=NOTE_NUM + ' Pairs whose tangent distance is not resolvable in the scalar type (eps < 1e4*u*|coordinates|) are counted, not judged.'),
    'C19': dict(engine='api-matrix builder', design_ref='DESIGN.md 4/C19', technique='exhaustive generated API matrix: each cell compiled, executed under ASan/UBSan, digest compared bit-wise with the owning instantiation',
                text='The finite matrix {126 documented entries} x {owning, Map, Map<const>} x {12 (quick) / 17 (thorough) groups incl. bundles} x {float,double} is enumerated completely; a cell that cannot be instantiated is a violation attributed through the compiler instantiation trace; every other cell is executed and must reproduce the owning cell bit for bit. Operands are also seen through LieGroupBase<D>& / TangentBase<D>& references; static constants are odr-used (link errors are attributed to cells); every alias and free function is compared with its canonical member (values and Jacobians).',
                note='The instantiation half is observed at build time (the one place where the deciding event is not an execution, see DESIGN.md 4/C19). g++ 12 builds and runs the cells; clang++ 14 re-checks every TU with -fsyntax-only.'),
}
