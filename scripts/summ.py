#!/usr/bin/env python3
"""Compact summary of the replay files of one property: python3 scripts/summ.py C03 [depth]"""
import json, glob, sys, collections
prop = sys.argv[1]; depth = int(sys.argv[2]) if len(sys.argv) > 2 else 3
c = collections.Counter(); mx = {}
for f in glob.glob('/verif/replays/%s/*.json' % prop):
    r = json.load(open(f)); k = tuple(r['key'].split('/')[:depth])
    c[k] += r['count']; m = r['max_magnitude']; m = m if isinstance(m, (int, float)) else 9e99
    mx[k] = max(mx.get(k, 0), m)
for k in sorted(c): print('/'.join(k), c[k], '%.3g' % mx[k])
