#!/bin/bash
# Hooks-off baseline: rebuild /repo/_build and run the pinned suite exactly as BASELINE.json describes.
set -e
cd /repo
cmake -G Ninja -B /repo/_build -DBUILD_TESTING=ON >/dev/null
cmake --build /repo/_build -j16
ctest --test-dir /repo/_build -j8 --timeout 900
