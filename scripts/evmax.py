#!/usr/bin/env python3
"""print per-metric maxima of an evidence file, aggregated over groups: scripts/evmax.py C06"""
import json, sys, collections
ev = json.load(open('/verif/evidence/%s.json' % sys.argv[1]))
agg = collections.defaultdict(dict)
for k, v in ev['coverage']['per_metric_max'].items():
    parts = k.split('/'); agg[parts[0]]['/'.join(parts[1:])] = v
for m in sorted(agg):
    items = sorted(agg[m].items(), key=lambda kv: -(kv[1] if isinstance(kv[1], (int, float)) else 9e99))[:4]
    print(m, ' '.join('%s=%s' % (k, ('%.2g' % v) if isinstance(v, float) else v) for k, v in items))
