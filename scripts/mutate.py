#!/usr/bin/env python3
"""Bite tests: apply one realistic single edit to a scratch copy of /repo/include (under /tmp, removed afterwards), run the quick
check(s) that should catch it from a scratch copy of /verif (VERIF_REPO points the monitors at the scratch tree).  usage: scripts/mutate.py [name ...] | --list | --all
The edits are textual (old -> new, must match exactly once).  Nothing is committed; the tree is restored even on error."""
import subprocess, sys, os, re, json, time

M = [
    # name, file, old, new, properties expected to fire
    ('c01-sgal3-compose-drop-tv', 'impl/sgal3/SGal3_base.h', 'rotation() * m_sgal3.translation() + m_sgal3.t() * linearVelocity() + translation(),', 'rotation() * m_sgal3.translation() + translation(),', ['C01']),
    ('c01-se23-compose-vel-sign', 'impl/se_2_3/SE_2_3_base.h', 'rotation()*m_se_2_3.linearVelocity() + linearVelocity());', 'rotation()*m_se_2_3.linearVelocity() - linearVelocity());', ['C01']),
    ('c01-approxsqrtinv-coeff', 'impl/utils.h', '(T(15) / T(8)) - (T(5) / T(4)) * x + (T(3) / T(8)) * x * x', '(T(15) / T(8)) - (T(5) / T(4)) * x + (T(3) / T(4)) * x * x', ['C01', 'C08']),
    ('c01-se3-act-transpose', 'impl/se3/SE3_base.h', '  return translation() + R * v;\n}\n\n\ntemplate <typename _Derived>\ntypename SE3Base<_Derived>::Jacobian', '  return translation() + R.transpose() * v;\n}\n\n\ntemplate <typename _Derived>\ntypename SE3Base<_Derived>::Jacobian', ['C01']),
    ('c02-se2-taylor-B', 'impl/se2/SE2Tangent_base.h', '    B = Scalar(.5) * theta - Scalar(1. / 24.) * theta * theta_sq;\n  }\n  else\n  {\n    // Euler\n    A = sin_theta / theta;\n    B = one_minus_cos_theta / theta;\n  }\n\n  if (J_m_t)', '    B = theta - Scalar(1. / 24.) * theta * theta_sq;\n  }\n  else\n  {\n    // Euler\n    A = sin_theta / theta;\n    B = one_minus_cos_theta / theta;\n  }\n\n  if (J_m_t)', ['C02']),
    ('c02-so3-exp-small-angle-half', 'impl/so3/SO3Tangent_base.h', 'return LieGroup(x()/Scalar(2), y()/Scalar(2), z()/Scalar(2), Scalar(1));', 'return LieGroup(x(), y(), z(), Scalar(1));', ['C02']),
    ('c02-sgal3-E-sign', 'impl/sgal3/SGal3Tangent_base.h', 'so3_ljac * lin() + (E * (t() * lin2())),', 'so3_ljac * lin() - (E * (t() * lin2())),', ['C02']),
    ('c03-so3-log-no-hemisphere', 'impl/so3/SO3_base.h', '    const Scalar two_angle = Scalar(2.0) * ((cos_angle < Scalar(0.0)) ?\n                                 Scalar(atan2(-sin_angle, -cos_angle)) :\n                                 Scalar(atan2( sin_angle,  cos_angle)));', '    const Scalar two_angle = Scalar(2.0) * Scalar(atan2( sin_angle,  cos_angle));', ['C03']),
    ('c03-so3-log-small-sign', 'impl/so3/SO3_base.h', 'log_coeff = (w() < Scalar(0.0)) ? Scalar(-2.0) : Scalar(2.0);', 'log_coeff = Scalar(2.0);', ['C03']),
    ('c04-trplus-to-lplus', 'impl/tangent_base.h', '  return m.rplus(derived(), J_mout_m, J_mout_t);', '  return m.lplus(derived(), J_mout_m, J_mout_t);', ['C04']),
    ('c04-between-order', 'impl/lie_group_base.h', '  const LieGroup mc = inverse().compose(m);', '  const LieGroup mc = m.compose(inverse());', ['C04']),
    ('c05-fillQ-coeff', 'impl/se3/SE3Tangent_base.h', '      B =  Scalar(1./6.)  + Scalar(1./120.)  * theta_sq;', '      B =  Scalar(1./2.)  + Scalar(1./120.)  * theta_sq;', ['C05', 'C06']),
    ('c05-rminus-Jb-sign', 'impl/lie_group_base.h', '    (*J_t_mb) = -(-t).rjacinv();', '    (*J_t_mb) = (-t).rjacinv();', ['C05']),
    ('c05-se2-exp-J-third-col-sign', 'impl/se2/SE2Tangent_base.h', '      (*J_m_t)(0,2) = (x()*(theta - sin_theta) - y()*one_minus_cos_theta)/theta_sq;', '      (*J_m_t)(0,2) = (x()*(theta - sin_theta) + y()*one_minus_cos_theta)/theta_sq;', ['C05', 'C06']),
    ('c06-so3-ljacinv-threshold', 'impl/so3/SO3Tangent_base.h', '  if (theta_sq <= Constants<Scalar>::eps)\n    return Jacobian::Identity() - Scalar(0.5) * W;', '  if (theta_sq <= Scalar(1e-4))\n    return Jacobian::Identity() - Scalar(0.5) * W;', ['C06', 'C05']),
    ('c06-sgal3-N2-const', 'impl/sgal3/SGal3Tangent_base.h', 'cC = Scalar(1. / 60.)  - Scalar(1. / 560.)  * theta_sq;', 'cC = Scalar(1. / 10.)  - Scalar(1. / 560.)  * theta_sq;', ['C06']),
    ('c08-so3-no-renorm', 'impl/so3/SO3_base.h', '  if (abs(ret_sqnorm-Scalar(1)) > Constants<Scalar>::eps)\n  {\n    ret_q.coeffs() *= approxSqrtInv(ret_sqnorm);', '  if (false && abs(ret_sqnorm-Scalar(1)) > Constants<Scalar>::eps)\n  {\n    ret_q.coeffs() *= approxSqrtInv(ret_sqnorm);', ['C08']),
    ('c08-se2-renorm-threshold-x100', 'impl/se2/SE2_base.h', '  if (abs(ret_sqnorm-Scalar(1)) > Constants<Scalar>::eps)', '  if (abs(ret_sqnorm-Scalar(1)) > Scalar(100)*Constants<Scalar>::eps)', ['C08']),
    ('c14-lazy-static', 'impl/so2/SO2Tangent_base.h', '  static const Jacobian Jr = Jacobian::Constant(Scalar(1));\n  return Jr;', '  static Jacobian Jr; static bool init = false; if (!init) { Jr = Jacobian::Constant(Scalar(1)); init = true; }\n  return Jr;', ['C14']),
    ('c14-mutable-cache-in-adj', 'impl/so3/SO3_base.h', '  return rotation();\n}\n\n// SO3 specific', '  static Jacobian cache; cache = rotation(); return cache;\n}\n\n// SO3 specific', ['C14']),
    ('c15-cubic-swap', 'algorithms/interpolation.h', '    const auto l = ma.rplus(tab*h01).rplus(ta*h10);\n    const auto r = mb.rplus(tab*(-h00)).rplus(tb*h11);', '    const auto l = ma.rplus(tab*h00).rplus(ta*h10);\n    const auto r = mb.rplus(tab*(-h01)).rplus(tb*h11);', ['C15']),
    ('c15-slerp-lplus', 'algorithms/interpolation.h', '    mc = ma.rplus( mb.rminus(ma) * t );', '    mc = ma.lplus( mb.rminus(ma) * t );', ['C15']),
    ('c15-phi-coeff', 'algorithms/interpolation.h', 'degree == 2 ? (T(10.) *t3 - T(15.) *t4 + T(6.)  *t5)', 'degree == 2 ? (T(10.) *t3 - T(15.) *t4 + T(7.)  *t5)', ['C15']),
    ('c15-smooth-range-check', 'algorithms/interpolation.h', '  MANIF_CHECK(interp_factor >= Scalar(0) && interp_factor <= Scalar(1),\n              "s must be be in [0, 1].");\n\n  const auto phi', '  MANIF_CHECK(interp_factor >= Scalar(0) && interp_factor <= Scalar(2),\n              "s must be be in [0, 1].");\n\n  const auto phi', ['C15']),
    ('c16-biinvariant-no-weight', 'algorithms/average.h', '    ts *= w; // doing the common product by 1/N just once\n\n    //////////////\n    // Stopping criterion is from (b)', '    //////////////\n    // Stopping criterion is from (b)', ['C16']),
    ('c16-biinvariant-early-stop', 'algorithms/average.h', '    if (ts.coeffs().squaredNorm() < eps)\n      break;\n\n    avg += ts;\n\n    //////////////\n    // Stopping criterion is from (a)', '    if (ts.coeffs().squaredNorm() < Scalar(1e-4))\n      break;\n\n    avg += ts;\n\n    //////////////\n    // Stopping criterion is from (a)', ['C16']),
    ('c16-frechet-left-uses-lminus', 'algorithms/average.h', '      tmp = (*it) - avg_0; // Log( Avg^-1 . Xi )', '      tmp = it->lminus(avg_0); // Log( Avg^-1 . Xi )', ['C16']),
    ('c17-window-stride', 'algorithms/decasteljau.h', '&trajectory[t*(degree-1)+n]', '&trajectory[t*degree+n]', ['C17']),
    ('c17-wrap-loop-le', 'algorithms/decasteljau.h', 'for (unsigned int p=0; p<degree-left_over-1; ++p)', 'for (unsigned int p=0; p<=degree-left_over-1; ++p)', ['C17']),
    ('c17-segment-count', 'algorithms/decasteljau.h', 'std::floor(double(trajectory.size()-degree)/double(degree-1))+1', 'std::floor(double(trajectory.size()-degree)/double(degree))+1', ['C17']),
    ('c18-isapprox-lminus', 'impl/lie_group_base.h', '  return rminus(m).isApprox(Tangent::Zero(), eps);', '  return lminus(m).isApprox(Tangent::Zero(), eps);', ['C18']),
    ('c18-isapprox-ignores-eps', 'impl/lie_group_base.h', '  return rminus(m).isApprox(Tangent::Zero(), eps);', '  return rminus(m).isApprox(Tangent::Zero());', ['C18']),
    ('c19-sgal3-smalladj-matrix3d', 'impl/sgal3/SGal3Tangent_base.h', '-t() * Eigen::Matrix<Scalar, 3, 3>::Identity();', '-t() * Eigen::Matrix3d::Identity();', ['C19']),
    ('c19-functions-typo', 'functions.h', '  lie_group.setIdentity();', '  lie_group.identity();', ['C19']),
    # reverts of the repairs (old == '@git': the file is replaced by its content at the given commit): the checks must see the original defects
    ('revert-1-cos-fix(F13)', 'impl/so3/SO3Tangent_base.h', '@git', '8911bb3~1', ['C12']),
    ('revert-sgal3-fillE-fix(F5)', 'impl/sgal3/SGal3Tangent_base.h', '@git', 'baaa47e~1', ['C12', 'C02']),
    ('revert-se2-jacobian-fix(F1,F2)', 'impl/se2/SE2Tangent_base.h', '@git', 'ce998f3~1', ['C05', 'C06', 'C12']),
    ('revert-sgal3-ljac-fix(F3)', 'impl/sgal3/SGal3Tangent_base.h', '@git', '274e776~1', ['C05', 'C06']),
    ('revert-bundle-cast-fix', 'impl/bundle/Bundle_base.h', '@git', 'ef892cc~1', ['C08', 'C13']),
    ('revert-rn-transform-fix', 'impl/rn/Rn.h', '@git', '6aaa354~1', ['C01']),
    ('revert-rvalue-const-view-assign-fix(F21)', 'impl/macro.h', '@git', '05d9b1b~1', ['C10', 'C19']),
    ('revert-bundlesize-definition-fix(F23)', 'impl/bundle/Bundle_base.h', '@git', 'cb54ad5~1', ['C19']),
    ('revert-cubic-fix(F10)', 'algorithms/interpolation.h', '@git', 'fb2aa18~1', ['C15']),
    ('c07-se23-generators-swapped', 'impl/se_2_3/SE_2_3Tangent_base.h', None, None, ['C07']),
    ('c07-se2-innerweights', 'impl/se2/SE2Tangent_base.h', 'Scalar(0), Scalar(0), Scalar(2) ).finished()', 'Scalar(0), Scalar(0), Scalar(1) ).finished()', ['C07']),
    ('c07-bundle-generator-index-le', 'impl/bundle/BundleTangent_base.h', '      i < BundleTangentBase<Derived>::DoF,', '      i <= BundleTangentBase<Derived>::DoF,', ['C07']),
]
M = [m for m in M if m[2] is not None]

SCR_REPO = '/tmp/manif-mut-repo'
SCR_VERIF = '/tmp/manif-mut-verif'
R = SCR_REPO + '/include/manif/'


def setup():
    sh('rm -rf %s %s; mkdir -p %s %s' % (SCR_REPO, SCR_VERIF, SCR_REPO, SCR_VERIF))
    sh('cp -r /repo/include %s/ && mkdir -p %s/external && cp -r /repo/external/tl %s/external/' % (SCR_REPO, SCR_REPO, SCR_REPO))
    sh('rsync -a --exclude .cache --exclude .git --exclude replays /verif/ %s/' % SCR_VERIF)


def teardown():
    sh('rm -rf %s %s' % (SCR_REPO, SCR_VERIF))


def sh(cmd):
    return subprocess.run(cmd, shell=True, stdout=subprocess.PIPE, stderr=subprocess.STDOUT, universal_newlines=True)


def run(name):
    ent = [m for m in M if m[0] == name]
    if not ent:
        print('unknown mutant', name); return None
    _, f, old, new, props = ent[0]
    path = R + f
    src = open(path).read()
    if old == '@git':
        mutated = subprocess.run(['git', '-C', '/repo', 'show', '%s:include/manif/%s' % (new, f)], stdout=subprocess.PIPE, universal_newlines=True).stdout
        if not mutated or mutated == src:
            print('%s: nothing to revert' % name); return None
    else:
        if src.count(old) != 1:
            print('%s: pattern matches %d times in %s' % (name, src.count(old), f)); return None
        mutated = src.replace(old, new)
    res = {}
    try:
        open(path, 'w').write(mutated)
        for p in props:
            t0 = time.time()
            r = sh('VERIF_REPO=%s python3 %s/check.py %s --tier quick' % (SCR_REPO, SCR_VERIF, p))
            nv = len(re.findall(r'^VIOLATION', r.stdout, re.M))
            res[p] = {'rc': r.returncode, 'violations': nv, 'first': (re.findall(r'^VIOLATION.*', r.stdout, re.M) or [''])[0][:200], 's': round(time.time() - t0)}
            print('%-34s %s rc=%d violation-lines=%d (%ds) %s' % (name, p, r.returncode, nv, time.time() - t0, res[p]['first'][60:200]))
            if r.returncode == 2: print(r.stdout[-800:])
    finally:
        open(path, 'w').write(src)
    return res


def run_patch(patch, props):
    """apply a patch file (git diff of include/...) to the scratch tree and run the given checks"""
    r = sh('patch -p1 -d %s < %s' % (SCR_REPO, patch))
    if r.returncode != 0:
        print('patch does not apply:\n' + r.stdout); return None
    res = {}
    for p in props:
        t0 = time.time()
        r = sh('VERIF_REPO=%s python3 %s/check.py %s --tier quick' % (SCR_REPO, SCR_VERIF, p))
        lines = re.findall(r'^VIOLATION.*', r.stdout, re.M)
        res[p] = {'rc': r.returncode, 'violations': len(lines), 'first': [l[:260] for l in lines[:3]], 's': round(time.time() - t0), 'tail': r.stdout.strip().split('\n')[-1][:300]}
        print('%-40s %s rc=%d violation-lines=%d (%ds)' % (os.path.basename(os.path.dirname(patch)), p, r.returncode, len(lines), time.time() - t0))
        for l in lines[:2]: print('      ' + l[60:260])
        if r.returncode == 2: print(r.stdout[-600:])
    sh('patch -R -p1 -d %s < %s' % (SCR_REPO, patch))
    return res


if __name__ == '__main__':
    if '--patch' in sys.argv:
        i = sys.argv.index('--patch'); patch = sys.argv[i + 1]; props = sys.argv[i + 2:]
        setup()
        try:
            out = run_patch(patch, props)
        finally:
            teardown()
        json.dump(out, open(os.path.join(os.path.dirname(patch), 'verif_result.json'), 'w'), indent=1)
        sys.exit(0)
    if '--list' in sys.argv:
        for m in M: print(m[0], m[4])
        sys.exit(0)
    names = [m[0] for m in M] if '--all' in sys.argv else sys.argv[1:]
    out = {}
    setup()
    try:
        for n in names:
            out[n] = run(n)
            sys.stdout.flush()
    finally:
        if '--keep' not in sys.argv: teardown()
    os.makedirs('/verif/.cache', exist_ok=True)
    json.dump(out, open('/verif/.cache/mutants_last.json', 'w'), indent=1)
