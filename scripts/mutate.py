#!/usr/bin/env python3
"""Bite tests: apply one realistic single edit to /repo's working tree, run the quick check(s) that should catch it,
restore the tree.  usage: scripts/mutate.py [name ...] | --list | --all
The edits are textual (old -> new, must match exactly once).  Nothing is committed; the tree is restored even on error."""
import subprocess, sys, os, re, json, time

R = '/repo/include/manif/'
M = [
    # name, file, old, new, properties expected to fire
    ('c01-sgal3-compose-drop-tv', 'impl/sgal3/SGal3_base.h', 'rotation() * m_sgal3.translation() + m_sgal3.t() * linearVelocity() + translation(),', 'rotation() * m_sgal3.translation() + translation(),', ['C01']),
    ('c01-se23-compose-vel-sign', 'impl/se_2_3/SE_2_3_base.h', 'rotation()*m_se_2_3.linearVelocity() + linearVelocity());', 'rotation()*m_se_2_3.linearVelocity() - linearVelocity());', ['C01']),
    ('c01-approxsqrtinv-coeff', 'impl/utils.h', '(T(15) / T(8)) - (T(5) / T(4)) * x + (T(3) / T(8)) * x * x', '(T(15) / T(8)) - (T(5) / T(4)) * x + (T(3) / T(4)) * x * x', ['C01', 'C08']),
    ('c01-se3-act-transpose', 'impl/se3/SE3_base.h', '  return translation() + R * v;\n}\n\n\ntemplate <typename _Derived>\ntypename SE3Base<_Derived>::Jacobian', '  return translation() + R.transpose() * v;\n}\n\n\ntemplate <typename _Derived>\ntypename SE3Base<_Derived>::Jacobian', ['C01']),
    ('c02-se2-taylor-B', 'impl/se2/SE2Tangent_base.h', '    B = Scalar(.5) * theta - Scalar(1. / 24.) * theta * theta_sq;\n  }\n  else\n  {\n    // Euler\n    A = sin_theta / theta;\n    B = one_minus_cos_theta / theta;\n  }\n\n  if (J_m_t)', '    B = theta - Scalar(1. / 24.) * theta * theta_sq;\n  }\n  else\n  {\n    // Euler\n    A = sin_theta / theta;\n    B = one_minus_cos_theta / theta;\n  }\n\n  if (J_m_t)', ['C02']),
    ('c02-so3-exp-small-angle-half', 'impl/so3/SO3Tangent_base.h', 'return LieGroup(x()/Scalar(2), y()/Scalar(2), z()/Scalar(2), Scalar(1));', 'return LieGroup(x(), y(), z(), Scalar(1));', ['C02']),
    ('c02-sgal3-E-sign', 'impl/sgal3/SGal3Tangent_base.h', 'so3_ljac * lin() + (E * (t() * lin2())),', 'so3_ljac * lin() - (E * (t() * lin2())),', ['C02']),
    ('c03-so3-log-no-hemisphere', 'impl/so3/SO3_base.h', '    const Scalar two_angle = Scalar(2.0) * ((cos_angle < Scalar(0.0)) ?\n                                 Scalar(atan2(-sin_angle, -cos_angle)) :\n                                 Scalar(atan2( sin_angle,  cos_angle)));', '    const Scalar two_angle = Scalar(2.0) * Scalar(atan2( sin_angle,  cos_angle));', ['C03']),
    ('c03-so3-log-small-sign', 'impl/so3/SO3_base.h', 'log_coeff = (w() < Scalar(0.0)) ? Scalar(-2.0) : Scalar(2.0);', 'log_coeff = Scalar(2.0);', ['C03']),
    ('c04-trplus-to-lplus', 'impl/tangent_base.h', '  return m.rplus(derived(), J_mout_m, J_mout_t);', '  return m.lplus(derived(), J_mout_m, J_mout_t);', ['C04']),
    ('c04-between-order', 'impl/lie_group_base.h', '  const LieGroup mc = inverse().compose(m);', '  const LieGroup mc = m.compose(inverse());', ['C04']),
    ('c05-fillQ-coeff', 'impl/se3/SE3Tangent_base.h', '      B =  Scalar(1./6.)  + Scalar(1./120.)  * theta_sq;', '      B =  Scalar(1./2.)  + Scalar(1./120.)  * theta_sq;', ['C05', 'C06']),
    ('c05-rminus-Jb-sign', 'impl/lie_group_base.h', '    (*J_t_mb) = -(-t).rjacinv();', '    (*J_t_mb) = (-t).rjacinv();', ['C05']),
    ('c05-se2-exp-J-third-col-sign', 'impl/se2/SE2Tangent_base.h', '      (*J_m_t)(0,2) = (x()*(theta - sin_theta) - y()*one_minus_cos_theta)/theta_sq;', '      (*J_m_t)(0,2) = (x()*(theta - sin_theta) + y()*one_minus_cos_theta)/theta_sq;', ['C05', 'C06']),
    ('c06-so3-ljacinv-threshold', 'impl/so3/SO3Tangent_base.h', '  if (theta_sq <= Constants<Scalar>::eps)\n    return Jacobian::Identity() - Scalar(0.5) * W;', '  if (theta_sq <= Scalar(1e-4))\n    return Jacobian::Identity() - Scalar(0.5) * W;', ['C06', 'C05']),
    ('c06-sgal3-N2-const', 'impl/sgal3/SGal3Tangent_base.h', 'cC = Scalar(1. / 60.)  - Scalar(1. / 560.)  * theta_sq;', 'cC = Scalar(1. / 10.)  - Scalar(1. / 560.)  * theta_sq;', ['C06']),
]


def sh(cmd):
    return subprocess.run(cmd, shell=True, stdout=subprocess.PIPE, stderr=subprocess.STDOUT, universal_newlines=True)


def run(name):
    ent = [m for m in M if m[0] == name]
    if not ent:
        print('unknown mutant', name); return None
    _, f, old, new, props = ent[0]
    path = R + f
    src = open(path).read()
    if src.count(old) != 1:
        print('%s: pattern matches %d times in %s' % (name, src.count(old), f)); return None
    res = {}
    try:
        open(path, 'w').write(src.replace(old, new))
        for p in props:
            t0 = time.time()
            r = sh('python3 /verif/check.py %s --tier quick' % p)
            nv = len(re.findall(r'^VIOLATION', r.stdout, re.M))
            res[p] = {'rc': r.returncode, 'violations': nv, 'first': (re.findall(r'^VIOLATION.*', r.stdout, re.M) or [''])[0][:200], 's': round(time.time() - t0)}
            print('%-34s %s rc=%d violation-lines=%d (%ds) %s' % (name, p, r.returncode, nv, time.time() - t0, res[p]['first'][60:200]))
            if r.returncode == 2: print(r.stdout[-800:])
    finally:
        open(path, 'w').write(src)
    return res


if __name__ == '__main__':
    if '--list' in sys.argv:
        for m in M: print(m[0], m[4]); sys.exit(0)
    names = [m[0] for m in M] if '--all' in sys.argv else sys.argv[1:]
    out = {}
    for n in names:
        out[n] = run(n)
    st = sh('git -C /repo status --short -- include').stdout.strip()
    if st: print('WARNING: /repo/include not clean:\n' + st)
    json.dump(out, open('/verif/.cache/mutants_last.json', 'w'), indent=1)
