#!/usr/bin/env python3
"""Review tool (not a check): which lines / functions of /repo/include does NO monitor execute?
Builds every monitor for a set of groups with -O0 --coverage in a scratch directory under /tmp (removed afterwards), runs a small
workload, unions the gcov line counts, and lists (a) function bodies of the headers in which no line was ever executed or even
instantiated, (b) unexecuted lines inside executed functions.  usage: scripts/cov_union.py [--n 300] [--groups SO2,SE2,...]"""
import os, sys, json, glob, re, shutil, subprocess
from concurrent.futures import ThreadPoolExecutor
sys.path.insert(0, os.path.join(os.path.dirname(os.path.abspath(__file__)), '..'))
import check as CK

SRC = ['c01_group.cpp', 'c02_exp.cpp', 'c03_log.cpp', 'c04_plusminus.cpp', 'c05_jacobians.cpp', 'c06_jac.cpp', 'c07_algebra.cpp', 'c08_history.cpp',
       'c09_pure.cpp', 'c10_views.cpp', 'c11_bundle.cpp', 'c12_jet.cpp', 'c13_construct.cpp', 'c15_interp.cpp', 'c16_average.cpp', 'c17_decasteljau.cpp', 'c18_approx.cpp']
GROUPS = ['SO2', 'SE2', 'SO3', 'SE3', 'SE23', 'SGAL3', 'R3', 'BT1']
BASE = '/tmp/manif-cov-union'


def one(job):
    idx, src, g, n = job
    d = os.path.join(BASE, '%03d' % idx); os.makedirs(d)
    stubs = src == 'c12_jet.cpp'
    flags = list(CK.COMMON) + ['-O0', '--coverage'] + (['-I' + CK.ROOT + '/stubs', '-DEIGEN_STACK_ALLOCATION_LIMIT=0'] if stubs else []) + ['-DMG=' + g, '-DMS=double']
    if src == 'c19':
        sys.path.insert(0, CK.HARN); import gen_c19
        open(os.path.join(d, 'c19.cpp'), 'w').write(gen_c19.emit())
        cmd = ['g++'] + flags + [os.path.join(d, 'c19.cpp'), '-o', os.path.join(d, 'mon')]
        run = [os.path.join(d, 'mon'), os.path.join(d, 'out.jsonl')]
    else:
        cmd = ['g++'] + flags + [os.path.join(CK.HARN, src), CK.model_obj(), '-o', os.path.join(d, 'mon')]
        run = [os.path.join(d, 'mon'), '--seed', '1', '--n', str(n), '--out', os.path.join(d, 'log.jsonl')]
    r = subprocess.run(cmd, cwd=d, stdout=subprocess.PIPE, stderr=subprocess.STDOUT, universal_newlines=True)
    if r.returncode != 0: return src, g, None, 'build failed: ' + r.stdout[-300:]
    try: subprocess.run(run, cwd=d, stdout=subprocess.DEVNULL, stderr=subprocess.DEVNULL, timeout=900)
    except subprocess.TimeoutExpired: pass
    gc = glob.glob(os.path.join(d, '*.gcda'))
    if not gc: return src, g, None, 'no gcda'
    o = subprocess.run('gcov --json-format --stdout ' + ' '.join(gc), shell=True, cwd=d, stdout=subprocess.PIPE, stderr=subprocess.DEVNULL, universal_newlines=True)
    lines = {}
    try:
        for f in json.loads(o.stdout).get('files', []):
            fn = f['file']
            if not fn.startswith(CK.REPO + '/include/'): continue
            a = lines.setdefault(fn[len(CK.REPO) + 1:], {})
            for l in f['lines']: a[l['line_number']] = a.get(l['line_number'], 0) + l['count']
    except ValueError: return src, g, None, 'gcov unparsable'
    shutil.rmtree(d, ignore_errors=True)
    return src, g, lines, None


def functions(path):
    """crude: (first line, last line, signature) of every brace-delimited body that follows a parameter list: '{' on its own line after
    a line ending in ')' / ') const' ..., or at the end of such a line; control statements are skipped."""
    txt = open(path, errors='replace').read().split('\n')
    out, i = [], 0
    ctl = re.compile(r'^\s*(\}\s*)?(if|for|while|switch|else|do|catch|try)\b')
    sigend = r'\)\s*(const)?\s*(noexcept|MANIF_MOVE_NOEXCEPT)?\s*(->[^{;]*)?'
    while i < len(txt):
        s = txt[i].strip()
        own = s == '{' and i > 0 and re.search(sigend + r'$', txt[i - 1].strip()) and not ctl.match(txt[i - 1])
        eol = s.endswith('{') and s != '{' and re.search(sigend + r'\{$', s) and not ctl.match(s) and 'namespace' not in s and not s.startswith(('struct', 'class', 'template <', '#'))
        if own or eol:
            depth, j = 0, i
            while j < len(txt):
                depth += txt[j].count('{') - txt[j].count('}')
                if depth <= 0: break
                j += 1
            k = i - 1 if own else i
            while k > 0 and txt[k - 1].strip() and not txt[k - 1].strip().endswith((';', '}', '{')) and i - k < 8: k -= 1
            if j > i: out.append((i + 1, j + 1, ' '.join(x.strip() for x in txt[k:i + 1])[:160]))
            i = j + 1 if j > i else i + 1
        else: i += 1
    return out


def main():
    n = 300; groups = GROUPS
    a = sys.argv[1:]
    if '--n' in a: n = int(a[a.index('--n') + 1])
    if '--groups' in a: groups = a[a.index('--groups') + 1].split(',')
    shutil.rmtree(BASE, ignore_errors=True); os.makedirs(BASE)
    CK.model_obj()
    jobs = [(i, s, g, n if s != 'c08_history.cpp' else 20000) for i, (s, g) in enumerate([(s, g) for s in SRC + ['c19'] for g in groups if not (s == 'c11_bundle.cpp' and not g.startswith('B'))])]
    agg = {}
    with ThreadPoolExecutor(CK.NCPU) as ex:
        for src, g, lines, err in ex.map(one, jobs):
            if err: print('note: %s %s: %s' % (src, g, err)); continue
            for rel, d in lines.items():
                t = agg.setdefault(rel, {})
                for ln, c in d.items(): t[ln] = t.get(ln, 0) + c
    shutil.rmtree(BASE, ignore_errors=True)
    json.dump({k: {str(l): c for l, c in v.items()} for k, v in agg.items()}, open('/tmp/manif-cov-union.json', 'w'))
    never, partial = [], []
    for path in sorted(glob.glob(CK.REPO + '/include/manif/**/*.h', recursive=True)):
        rel = path[len(CK.REPO) + 1:]
        cov = agg.get(rel, {})
        for a0, b0, sig in functions(path):
            inst = [l for l in range(a0, b0 + 1) if l in cov]
            hit = [l for l in inst if cov[l] > 0]
            if not hit: never.append((rel, a0, b0, sig, 'not instantiated' if not inst else 'instantiated, never run'))
            else:
                un = [l for l in inst if cov[l] == 0]
                if un: partial.append((rel, a0, b0, sig, un))
    print('== function bodies never executed by any monitor (%d)' % len(never))
    for rel, a0, b0, sig, why in never: print('%s:%d-%d [%s] %s' % (rel, a0, b0, why, sig))
    print('== executed functions with unexecuted lines (%d)' % len(partial))
    for rel, a0, b0, sig, un in partial: print('%s:%d-%d lines %s  %s' % (rel, a0, b0, un[:12], sig[:100]))


if __name__ == '__main__':
    main()
