#!/usr/bin/env python3
"""Regenerates /verif/MANIFEST.json from the property table (checks.py: MANIFEST_META)."""
import json, os, sys, subprocess
ROOT = os.path.dirname(os.path.dirname(os.path.abspath(__file__)))
sys.path.insert(0, ROOT)
from checks import REGISTRY, MANIFEST_META, NOT_APPLICABLE, ENGINES
ids = ['C%02d' % i for i in range(1, 20)]
checks = []
for p in ids:
    if p not in REGISTRY or p not in MANIFEST_META: continue
    m = MANIFEST_META[p]
    checks.append({
        'property_id': p,
        'quick_cmd': 'python3 /verif/check.py %s --tier quick' % p,
        'thorough_cmd': 'python3 /verif/check.py %s --tier thorough' % p,
        'evidence_file': '/verif/evidence/%s.json' % p,
        'replay_cmd_template': 'python3 /verif/check.py %s --replay {path}' % p,
        'engine': m['engine'],
        'level_claimed': {'category': m.get('category', 'exploration'), 'text': m['text'], 'design_ref': m['design_ref']},
        'level_note': m['note'],
        'technique': m['technique'],
    })
na = [{'property_id': p, 'reason': NOT_APPLICABLE.get(p, 'check not built yet (work in progress; see DESIGN.md for the plan)')} for p in ids if p not in [c['property_id'] for c in checks]]
src = subprocess.run(['git', '-C', '/repo', 'log', '--format=%h %s', 'c1698bc..HEAD'], stdout=subprocess.PIPE, universal_newlines=True).stdout.strip().split('\n')
man = {
    'version': 1,
    'setup_cmd': 'python3 /verif/check.py --build-all',
    'hooks': {'guard': 'MANIF_VERIF_HOOKS', 'enable': 'no hook is needed: every observation is made at the public API boundary, by the scalar type, by a sanitizer or by an event log of the monitor itself; the guard name is reserved',
              'baseline_off_cmd': 'bash /verif/scripts/baseline.sh', 'source_commits': [], 'add_only': True},
    'engines': ENGINES,
    'checks': checks,
    'not_applicable': na,
    'notes': 'Runtime monitoring and sanitizers only. Unguarded fix: commits in /repo (recorded in known_findings.txt): ' + '; '.join(s for s in src if s),
}
json.dump(man, open(os.path.join(ROOT, 'MANIFEST.json'), 'w'), indent=1)
print('MANIFEST.json: %d checks, %d not_applicable' % (len(checks), len(na)))
