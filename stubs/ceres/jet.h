// Stand-in for <ceres/jet.h>: a forward-mode dual number ceres::Jet<T,N> with the same template signature and member
// names (a = value, v = infinitesimal part), the usual operators and elementary functions, comparisons on the value part,
// Eigen::NumTraits and std::numeric_limits.  It lets manif/ceres/*.h be compiled UNCHANGED in a sandbox without Ceres.
#ifndef VERIF_STUB_CERES_JET_H_
#define VERIF_STUB_CERES_JET_H_
#include <Eigen/Core>
#include <cmath>
#include <limits>
#include <ostream>
namespace ceres {
template <typename T, int N> struct Jet {
  enum { DIMENSION = N };
  typedef T Scalar;
  T a; Eigen::Matrix<T, N, 1> v;
  Jet() : a() { v.setZero(); }
  Jet(const T& value) : a(value) { v.setZero(); }                              // NOLINT implicit like ceres
  template <class U, class = typename std::enable_if<std::is_arithmetic<U>::value && !std::is_same<U, T>::value>::type> Jet(const U& value) : a((T)value) { v.setZero(); }
  Jet(const T& value, int k) : a(value) { v.setZero(); v[k] = T(1); }
  template <class D> Jet(const T& value, const Eigen::DenseBase<D>& vv) : a(value), v(vv) {}
  Jet& operator+=(const Jet& y) { a += y.a; v += y.v; return *this; }
  Jet& operator-=(const Jet& y) { a -= y.a; v -= y.v; return *this; }
  Jet& operator*=(const Jet& y) { *this = *this * y; return *this; }
  Jet& operator/=(const Jet& y) { *this = *this / y; return *this; }
  Jet& operator+=(const T& s) { a += s; return *this; }
  Jet& operator-=(const T& s) { a -= s; return *this; }
  Jet& operator*=(const T& s) { a *= s; v *= s; return *this; }
  Jet& operator/=(const T& s) { a /= s; v /= s; return *this; }
};
template <typename T, int N> Jet<T, N> operator+(const Jet<T, N>& f) { return f; }
template <typename T, int N> Jet<T, N> operator-(const Jet<T, N>& f) { return Jet<T, N>(-f.a, -f.v); }
template <typename T, int N> Jet<T, N> operator+(const Jet<T, N>& f, const Jet<T, N>& g) { return Jet<T, N>(f.a + g.a, f.v + g.v); }
template <typename T, int N> Jet<T, N> operator-(const Jet<T, N>& f, const Jet<T, N>& g) { return Jet<T, N>(f.a - g.a, f.v - g.v); }
template <typename T, int N> Jet<T, N> operator*(const Jet<T, N>& f, const Jet<T, N>& g) { return Jet<T, N>(f.a * g.a, f.a * g.v + f.v * g.a); }
template <typename T, int N> Jet<T, N> operator/(const Jet<T, N>& f, const Jet<T, N>& g) { const T gi = T(1) / g.a; const T q = f.a * gi; return Jet<T, N>(q, (f.v - q * g.v) * gi); }
#define VERIF_JET_SCALAR_OPS(ST)                                                                                                   \
  template <typename T, int N> Jet<T, N> operator+(const Jet<T, N>& f, ST s) { return Jet<T, N>(f.a + T(s), f.v); }               \
  template <typename T, int N> Jet<T, N> operator+(ST s, const Jet<T, N>& f) { return Jet<T, N>(f.a + T(s), f.v); }               \
  template <typename T, int N> Jet<T, N> operator-(const Jet<T, N>& f, ST s) { return Jet<T, N>(f.a - T(s), f.v); }               \
  template <typename T, int N> Jet<T, N> operator-(ST s, const Jet<T, N>& f) { return Jet<T, N>(T(s) - f.a, -f.v); }              \
  template <typename T, int N> Jet<T, N> operator*(const Jet<T, N>& f, ST s) { return Jet<T, N>(f.a * T(s), f.v * T(s)); }        \
  template <typename T, int N> Jet<T, N> operator*(ST s, const Jet<T, N>& f) { return Jet<T, N>(f.a * T(s), f.v * T(s)); }        \
  template <typename T, int N> Jet<T, N> operator/(const Jet<T, N>& f, ST s) { return Jet<T, N>(f.a / T(s), f.v / T(s)); }        \
  template <typename T, int N> Jet<T, N> operator/(ST s, const Jet<T, N>& g) { const T m = -T(s) / (g.a * g.a); return Jet<T, N>(T(s) / g.a, g.v * m); }
VERIF_JET_SCALAR_OPS(double)
VERIF_JET_SCALAR_OPS(float)
VERIF_JET_SCALAR_OPS(int)
#undef VERIF_JET_SCALAR_OPS
#define VERIF_JET_CMP(op)                                                                                   \
  template <typename T, int N> bool operator op(const Jet<T, N>& f, const Jet<T, N>& g) { return f.a op g.a; } \
  template <typename T, int N> bool operator op(const Jet<T, N>& f, double s) { return f.a op T(s); }          \
  template <typename T, int N> bool operator op(double s, const Jet<T, N>& g) { return T(s) op g.a; }
VERIF_JET_CMP(<) VERIF_JET_CMP(<=) VERIF_JET_CMP(>) VERIF_JET_CMP(>=) VERIF_JET_CMP(==) VERIF_JET_CMP(!=)
#undef VERIF_JET_CMP
template <typename T, int N> Jet<T, N> abs(const Jet<T, N>& f) { return f.a < T(0) ? -f : f; }
template <typename T, int N> Jet<T, N> fabs(const Jet<T, N>& f) { return abs(f); }
template <typename T, int N> Jet<T, N> sqrt(const Jet<T, N>& f) { const T s = std::sqrt(f.a); return Jet<T, N>(s, f.v * (T(1) / (T(2) * s))); }
template <typename T, int N> Jet<T, N> cbrt(const Jet<T, N>& f) { const T s = std::cbrt(f.a); return Jet<T, N>(s, f.v * (T(1) / (T(3) * s * s))); }
template <typename T, int N> Jet<T, N> exp(const Jet<T, N>& f) { const T e = std::exp(f.a); return Jet<T, N>(e, f.v * e); }
template <typename T, int N> Jet<T, N> log(const Jet<T, N>& f) { return Jet<T, N>(std::log(f.a), f.v * (T(1) / f.a)); }
template <typename T, int N> Jet<T, N> sin(const Jet<T, N>& f) { return Jet<T, N>(std::sin(f.a), f.v * std::cos(f.a)); }
template <typename T, int N> Jet<T, N> cos(const Jet<T, N>& f) { return Jet<T, N>(std::cos(f.a), f.v * (-std::sin(f.a))); }
template <typename T, int N> Jet<T, N> tan(const Jet<T, N>& f) { const T t = std::tan(f.a); return Jet<T, N>(t, f.v * (T(1) + t * t)); }
template <typename T, int N> Jet<T, N> asin(const Jet<T, N>& f) { return Jet<T, N>(std::asin(f.a), f.v * (T(1) / std::sqrt(T(1) - f.a * f.a))); }
template <typename T, int N> Jet<T, N> acos(const Jet<T, N>& f) { return Jet<T, N>(std::acos(f.a), f.v * (-T(1) / std::sqrt(T(1) - f.a * f.a))); }
template <typename T, int N> Jet<T, N> atan(const Jet<T, N>& f) { return Jet<T, N>(std::atan(f.a), f.v * (T(1) / (T(1) + f.a * f.a))); }
template <typename T, int N> Jet<T, N> atan2(const Jet<T, N>& g, const Jet<T, N>& f) { const T d = T(1) / (f.a * f.a + g.a * g.a); return Jet<T, N>(std::atan2(g.a, f.a), d * (-g.a * f.v + f.a * g.v)); }
template <typename T, int N> Jet<T, N> pow(const Jet<T, N>& f, double p) { const T w = std::pow(f.a, T(p)); return Jet<T, N>(w, f.v * (T(p) * std::pow(f.a, T(p - 1)))); }
template <typename T, int N> Jet<T, N> floor(const Jet<T, N>& f) { return Jet<T, N>(std::floor(f.a)); }
template <typename T, int N> bool isfinite(const Jet<T, N>& f) { if (!std::isfinite(f.a)) return false; for (int i = 0; i < N; ++i) if (!std::isfinite(f.v[i])) return false; return true; }
template <typename T, int N> bool isnan(const Jet<T, N>& f) { if (std::isnan(f.a)) return true; for (int i = 0; i < N; ++i) if (std::isnan(f.v[i])) return true; return false; }
template <typename T, int N> bool isinf(const Jet<T, N>& f) { return std::isinf(f.a); }
template <typename T, int N> const Jet<T, N>& (min)(const Jet<T, N>& f, const Jet<T, N>& g) { return g.a < f.a ? g : f; }
template <typename T, int N> const Jet<T, N>& (max)(const Jet<T, N>& f, const Jet<T, N>& g) { return f.a < g.a ? g : f; }
template <typename T, int N> std::ostream& operator<<(std::ostream& s, const Jet<T, N>& z) { return s << "[" << z.a << " ; " << z.v.transpose() << "]"; }
}  // namespace ceres
namespace std {
template <typename T, int N> struct numeric_limits<ceres::Jet<T, N>> {
  static constexpr bool is_specialized = true, is_signed = true, is_integer = false, is_exact = false, has_infinity = true, has_quiet_NaN = true;
  static constexpr int digits = numeric_limits<T>::digits, digits10 = numeric_limits<T>::digits10, max_digits10 = numeric_limits<T>::max_digits10;
  static ceres::Jet<T, N> min() { return ceres::Jet<T, N>(numeric_limits<T>::min()); }
  static ceres::Jet<T, N> lowest() { return ceres::Jet<T, N>(numeric_limits<T>::lowest()); }
  static ceres::Jet<T, N> max() { return ceres::Jet<T, N>(numeric_limits<T>::max()); }
  static ceres::Jet<T, N> epsilon() { return ceres::Jet<T, N>(numeric_limits<T>::epsilon()); }
  static ceres::Jet<T, N> infinity() { return ceres::Jet<T, N>(numeric_limits<T>::infinity()); }
  static ceres::Jet<T, N> quiet_NaN() { return ceres::Jet<T, N>(numeric_limits<T>::quiet_NaN()); }
};
}  // namespace std
namespace Eigen {
template <typename T, int N> struct NumTraits<ceres::Jet<T, N>> {
  typedef ceres::Jet<T, N> Real; typedef ceres::Jet<T, N> NonInteger; typedef ceres::Jet<T, N> Nested; typedef ceres::Jet<T, N> Literal;
  static Real dummy_precision() { return Real(1e-12); }
  static Real epsilon() { return Real(std::numeric_limits<T>::epsilon()); }
  static int digits10() { return NumTraits<T>::digits10(); }
  static Real highest() { return Real((std::numeric_limits<T>::max)()); }
  static Real lowest() { return Real(-(std::numeric_limits<T>::max)()); }
  enum { IsComplex = 0, IsInteger = 0, IsSigned = 1, ReadCost = 1, AddCost = 1, MulCost = 3, HasFloatingPoint = 1, RequireInitialization = 1 };
};
template <typename BinaryOp, typename T, int N> struct ScalarBinaryOpTraits<ceres::Jet<T, N>, T, BinaryOp> { typedef ceres::Jet<T, N> ReturnType; };
template <typename BinaryOp, typename T, int N> struct ScalarBinaryOpTraits<T, ceres::Jet<T, N>, BinaryOp> { typedef ceres::Jet<T, N> ReturnType; };
}  // namespace Eigen
#endif
