#ifndef VERIF_STUB_CERES_AUTODIFF_MANIFOLD_H_
#define VERIF_STUB_CERES_AUTODIFF_MANIFOLD_H_
namespace ceres {
template <typename Functor, int kAmbientSize, int kTangentSize> class AutoDiffManifold {
 public:
  AutoDiffManifold() {}
  const Functor& functor() const { return functor_; }
 private:
  Functor functor_;
};
}  // namespace ceres
#endif
