// Stand-in for <ceres/version.h> (Ceres is not installed in this sandbox): only the version macros manif tests.
#ifndef VERIF_STUB_CERES_VERSION_H_
#define VERIF_STUB_CERES_VERSION_H_
#ifdef VERIF_STUB_CERES_OLD
#define CERES_VERSION_MAJOR 2
#define CERES_VERSION_MINOR 0
#else
#define CERES_VERSION_MAJOR 2
#define CERES_VERSION_MINOR 2
#endif
#define CERES_VERSION_REVISION 0
#endif
