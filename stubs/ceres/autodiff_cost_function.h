// Stand-in: just enough of ceres::AutoDiffCostFunction for manif/ceres/ceres_utils.h to be well-formed.
#ifndef VERIF_STUB_CERES_AUTODIFF_COST_FUNCTION_H_
#define VERIF_STUB_CERES_AUTODIFF_COST_FUNCTION_H_
#include <memory>
namespace ceres {
template <typename Functor, int kNumResiduals, int... Ns> class AutoDiffCostFunction {
 public:
  explicit AutoDiffCostFunction(Functor* f) : functor_(f) {}
  const Functor& functor() const { return *functor_; }
 private:
  std::unique_ptr<Functor> functor_;
};
}  // namespace ceres
#endif
