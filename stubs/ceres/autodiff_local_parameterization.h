#ifndef VERIF_STUB_CERES_AUTODIFF_LOCAL_PARAMETERIZATION_H_
#define VERIF_STUB_CERES_AUTODIFF_LOCAL_PARAMETERIZATION_H_
namespace ceres {
template <typename Functor, int kGlobalSize, int kLocalSize> class AutoDiffLocalParameterization {
 public:
  AutoDiffLocalParameterization() {}
  const Functor& functor() const { return functor_; }
 private:
  Functor functor_;
};
}  // namespace ceres
#endif
