// Common scaffolding of a monitor translation unit.
#pragma once
#include "grouplist.h"
#include "groups.h"
#include "strata.h"
#include <typeinfo>
#include <exception>

typedef typename MonG::Scalar MonS;
typedef typename MonG::Tangent MonT;

static std::string GN() { return std::string(MonGName) + "/" + MonSName; }
static const ref::Group& RG() { return groupOf<MonG>(); }

// the per-case function of a monitor; i = case index, r = its private PRNG stream
void runCase(long long i, Prng& r, const Args& a);
void runOnce(const Args& a);  // executed once per process before the cases (may be empty)

static J caseJ(const Args& a, long long i) { J j; j.s("monitor", LOG.monitor).u("seed", a.seed).i("idx", i).s("group", GN()); return j; }

int main(int argc, char** argv) {
  Args a(argc, argv);
  LOG.monitor = std::string(MON_NAME) + ":" + GN();
  srand((unsigned)a.seed);
  // under valgrind long double is emulated with 64 bits: the self-check of the model (1e-15 thresholds) cannot pass there, and the
  // monitors run under memcheck (C10) do not use the model for any verdict
  if (a.get("noselfcheck") != "1")
  for (auto& e : RG().el) { std::string s = ref::selfCheck(e, 7); if (!s.empty()) { fprintf(stderr, "reference model self-check failed: %s\n", s.c_str()); return 2; } }
  try { runOnce(a); }
  catch (const std::exception& e) { LOG.viol(std::string("uncaught-exception/") + GN() + "/runOnce", 1, J().s("what", e.what()).str()); }
  long long lo = 0, hi = a.n;
  if (a.only >= 0) { lo = a.only; hi = a.only + 1; }
  for (long long i = lo; i < hi; ++i) {
    Prng r(a.seed, (uint64_t)i);
    try { runCase(i, r, a); }
    catch (const std::exception& e) {
      LOG.viol(std::string("uncaught-exception/") + GN() + "/" + typeid(e).name(), 1, caseJ(a, i).s("what", e.what()).str());
    }
  }
  LOG.finish();
  return 0;
}
