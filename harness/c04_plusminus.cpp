// C04 monitor: plus / minus / between are the documented compositions; every alias returns the canonical member's result.
#define MON_NAME "c04_plusminus"
#include "mon.h"
#include <manif/functions.h>

static const double PI = 3.14159265358979323846;
static double TOL() { return sizeof(MonS) == 4 ? 1e-4 : 1e-8; }
using ref::VecL; using ref::GM; using ref::LD;

void runOnce(const Args&) {}

template <class A, class B> static bool bitEq(const A& a, const B& b) {
  if (a.size() != b.size()) return false;
  for (int k = 0; k < (int)a.size(); ++k) if (std::memcmp(&a.data()[k], &b.data()[k], sizeof(MonS)) != 0) {
    // +0.0 and -0.0 are the same value; NaN never equals
    if (!(a.data()[k] == b.data()[k])) return false;
  }
  return true;
}
static LD timeFactor(const VecL& t) {
  const ref::Group& g = RG(); LD f = 1;
  for (int b = 0; b < g.nb(); ++b) if (g.el[b].timeIdx >= 0) f = std::max(f, std::fabs(t(g.dofOff[b] + g.el[b].timeIdx)));
  return f;
}
static LD coordScale(const MonG& X) {
  const ref::Group& g = RG(); LD c = 1, t = 1;
  for (int b = 0; b < g.nb(); ++b) {
    const ref::Elem& e = g.el[b];
    for (int k : e.linCoef) { LD v = std::fabs((LD)X.coeffs()(g.repOff[b] + k)); if (e.kind == ref::K_SGAL3 && k == 10) t = std::max(t, v); else c = std::max(c, v); }
  }
  return c * t;
}

void runCase(long long i, Prng& r, const Args& a) {
  const ref::Group& g = RG();
  GenOpt o; o.thetaMax = PI; o.nearPiMin = 0; o.linMax = 1e6;
  std::string lx, lt, ly;
  MonG X = groupFrom<MonG>(genElement<MonS>(g, r, o, lx));
  GenOpt ot = o; ot.thetaMax = PI - 1e-6; ot.nearPiMin = 1e-6;
  std::vector<MonS> tv = genTangent<MonS>(g, r, ot, lt);
  MonT t = tangentFrom<MonT>(tv);
  MonG Y;
  bool rel = r.coin(0.6);
  if (rel) { Y = X.compose(t.exp()); ly = "rel:" + lt; }   // X^-1 Y = exp(t)
  else { Y = groupFrom<MonG>(genElement<MonS>(g, r, o, ly)); ly = "indep:" + ly; }
  const GM MX = gmOf(X), MY = gmOf(Y);
  const VecL tl = toL(t.coeffs());
  const LD sX = coordScale(X), sY = coordScale(Y), sT = std::max((LD)1, tl.cwiseAbs().maxCoeff()) * timeFactor(tl);
  const std::string gx = GN() + "/";
  J base; base.vec("X", X.coeffs()).vec("Y", Y.coeffs()).vec("t", tv);
  auto viol = [&](const std::string& key, double mag) { LOG.viol(key, mag, caseJ(a, i).d("err", mag).raw("inputs", base.str()).str()); };
  auto rec = [&](const std::string& what, const std::string& lab, double e, double tol) {
    LOG.cell(what + "/" + gx + lab, e); LOG.maxi(what + "-err/" + GN(), e);
    if (!(e <= tol)) viol(what + "/" + gx + dropLin(lab), e);
  };

  // ---- A. definitions against the model ------------------------------------------------------
  {
    MonG R = X.rplus(t), L = X.lplus(t);
    GM Rr = ref::gmul(MX, ref::gexp(g, tl)), Lr = ref::gmul(ref::gexp(g, tl), MX);
    rec("rplus=X*exp(t)", lt, (double)(ref::gdiff(gmOf(R), Rr) / (sX * sT)), TOL());
    rec("lplus=exp(t)*X", lt, (double)(ref::gdiff(gmOf(L), Lr) / (sX * sT)), TOL());
    // (X+t)-X = t inside the injectivity radius
    MonT back = R.rminus(X);
    double e = 0; for (int k = 0; k < g.dof; ++k) e = std::max(e, std::fabs((double)back.coeffs()(k) - (double)t.coeffs()(k)));
    e /= (double)(sT * sX);
    rec("(X+t)-X=t", lt, e, TOL() + 16 * Sc<MonS>::u() / std::max(PI - (double)ref::gtheta(g, tl), 16 * Sc<MonS>::u()));
  }
  {
    GM B = ref::gmul(ref::ginv(g, MX), MY);
    rec("between=X^-1*Y", ly, (double)(ref::gdiff(gmOf(X.between(Y)), B) / (sX * sY)), TOL());
    // rminus / lminus: exp of the result reproduces the relative transform; principal
    MonT rm = Y.rminus(X), lm = Y.lminus(X);   // log(X^-1 Y), log(Y X^-1)
    VecL rml = toL(rm.coeffs()), lml = toL(lm.coeffs());
    GM Br = ref::gmul(MY, ref::ginv(g, MX));
    double thr = (double)ref::gtheta(g, rml), thl = (double)ref::gtheta(g, lml);
    auto tolAt = [&](double th) { double u = Sc<MonS>::u(); return TOL() + 16 * u / std::max(PI - th, 16 * u); };
    rec("exp(Y-X)=X^-1*Y", ly, (double)(ref::gdiff(ref::gexp(g, rml), B) / (sX * sY)), tolAt(thr));
    rec("exp(lminus)=Y*X^-1", ly, (double)(ref::gdiff(ref::gexp(g, lml), Br) / (sX * sY)), tolAt(thl));
    if (!(thr <= PI * (1 + 8 * Sc<MonS>::u())) || !(thl <= PI * (1 + 8 * Sc<MonS>::u()))) viol("minus-not-principal/" + gx + dropLin(ly), std::max(thr, thl) - PI);
    // X+(Y-X) = Y when the relative rotation is below pi
    if (thr < PI - 1e-6) rec("X+(Y-X)=Y", ly, (double)(ref::gdiff(gmOf(X.rplus(rm)), MY) / (sX * sY)), tolAt(thr));
  }

  // ---- B. aliases: identical results (forwards) -----------------------------------------------
  int aliasCount = 0;
  auto same = [&](const char* name, bool ok) {
    ++aliasCount; LOG.cell(std::string("alias:") + name + "/" + GN(), ok ? 0 : 1);
    if (!ok) viol(std::string("alias-differs/") + name + "/" + GN(), 1);
  };
  {
    const MonG Rp = X.rplus(t), Lp = X.lplus(t), Cp = X.compose(Y), Bw = X.between(Y), Iv = X.inverse();
    const MonT Rm = X.rminus(Y), Lm = X.lminus(Y), Lg = X.log();
    same("plus", bitEq(X.plus(t).coeffs(), Rp.coeffs()));
    same("operator+", bitEq((X + t).coeffs(), Rp.coeffs()));
    { MonG Z = X; Z += t; same("operator+=", bitEq(Z.coeffs(), Rp.coeffs())); }
    same("minus", bitEq(X.minus(Y).coeffs(), Rm.coeffs()));
    same("operator-", bitEq((X - Y).coeffs(), Rm.coeffs()));
    same("operator*", bitEq((X * Y).coeffs(), Cp.coeffs()));
    { MonG Z = X; Z *= Y; same("operator*=", bitEq(Z.coeffs(), Cp.coeffs())); }
    same("t+X", bitEq((t + X).coeffs(), Lp.coeffs()));
    same("t.plus(X)", bitEq(t.plus(X).coeffs(), Lp.coeffs()));
    same("t.lplus(X)", bitEq(t.lplus(X).coeffs(), Lp.coeffs()));
    same("t.rplus(X)", bitEq(t.rplus(X).coeffs(), Rp.coeffs()));
    // free functions of functions.h
    same("manif::rplus", bitEq(manif::rplus(X, t).coeffs(), Rp.coeffs()));
    same("manif::lplus", bitEq(manif::lplus(X, t).coeffs(), Lp.coeffs()));
    same("manif::plus", bitEq(manif::plus(X, t).coeffs(), Rp.coeffs()));
    same("manif::rminus", bitEq(manif::rminus(X, Y).coeffs(), Rm.coeffs()));
    same("manif::lminus", bitEq(manif::lminus(X, Y).coeffs(), Lm.coeffs()));
    same("manif::minus", bitEq(manif::minus(X, Y).coeffs(), Rm.coeffs()));
    same("manif::compose", bitEq(manif::compose(X, Y).coeffs(), Cp.coeffs()));
    same("manif::between", bitEq(manif::between(X, Y).coeffs(), Bw.coeffs()));
    same("manif::inverse", bitEq(manif::inverse(X).coeffs(), Iv.coeffs()));
    same("manif::log", bitEq(manif::log(X).coeffs(), Lg.coeffs()));
    same("manif::exp", bitEq(manif::exp(t).coeffs(), t.exp().coeffs()));
    same("manif::coeffs", bitEq(manif::coeffs(X), X.coeffs()) && bitEq(manif::coeffs(t), t.coeffs()));
    same("manif::data", manif::data(X) == X.data() && manif::data(t) == t.data());
    same("manif::Identity", bitEq(manif::Identity<MonG>().coeffs(), MonG::Identity().coeffs()));
    same("manif::Zero", bitEq(manif::Zero<MonT>().coeffs(), MonT::Zero().coeffs()));
    { MonG Z = X; manif::identity(Z); same("manif::identity", bitEq(Z.coeffs(), MonG::Identity().coeffs())); }
    { MonT z = t; manif::zero(z); same("manif::zero", bitEq(z.coeffs(), MonT::Zero().coeffs())); }
    {
      std::vector<MonS> pv = genPoint<MonS>(g, r, 1e3);
      typename MonG::Vector p; for (int k = 0; k < g.dim; ++k) p(k) = pv[k];
      same("manif::act", bitEq(manif::act(X, p), X.act(p)));
      // Jacobian outputs of the facade land in the right argument
      typename MonG::Jacobian Ja, Jb, Fa, Fb;
      X.rplus(t, Ja, Jb); manif::rplus(X, t, Fa, Fb); same("manif::rplus-J", bitEq(Ja, Fa) && bitEq(Jb, Fb));
      X.lminus(Y, Ja, Jb); manif::lminus(X, Y, Fa, Fb); same("manif::lminus-J", bitEq(Ja, Fa) && bitEq(Jb, Fb));
      X.compose(Y, Ja, Jb); manif::compose(X, Y, Fa, Fb); same("manif::compose-J", bitEq(Ja, Fa) && bitEq(Jb, Fb));
      X.inverse(Ja); manif::inverse(X, Fa); same("manif::inverse-J", bitEq(Ja, Fa));
      // Jacobian outputs of the member aliases and of the tangent-side forms reach the right argument:
      // t.plus(X, J_t, J_X) and t.lplus(X, J_t, J_X) are X.lplus(t, J_X, J_t); t.rplus(X, J_t, J_X) is X.rplus(t, J_X, J_t)
      typename MonG::Jacobian Lm, Lt, Rm, Rt, A1, A2;
      X.lplus(t, Lm, Lt); X.rplus(t, Rm, Rt);
      t.plus(X, A1, A2); same("t.plus(X)-J", bitEq(A1, Lt) && bitEq(A2, Lm));
      t.lplus(X, A1, A2); same("t.lplus(X)-J", bitEq(A1, Lt) && bitEq(A2, Lm));
      t.rplus(X, A1, A2); same("t.rplus(X)-J", bitEq(A1, Rt) && bitEq(A2, Rm));
      X.plus(t, A1, A2); same("plus-J", bitEq(A1, Rm) && bitEq(A2, Rt));
      X.rminus(Y, Ja, Jb); X.minus(Y, A1, A2); same("minus-J", bitEq(A1, Ja) && bitEq(A2, Jb));
      manif::minus(X, Y, A1, A2); same("manif::minus-J", bitEq(A1, Ja) && bitEq(A2, Jb));
      manif::lplus(X, t, A1, A2); same("manif::lplus-J", bitEq(A1, Lm) && bitEq(A2, Lt));
      manif::plus(X, t, A1, A2); same("manif::plus-J", bitEq(A1, Rm) && bitEq(A2, Rt));
      X.between(Y, Ja, Jb); manif::between(X, Y, A1, A2); same("manif::between-J", bitEq(A1, Ja) && bitEq(A2, Jb));
      X.log(Ja); manif::log(X, A1); same("manif::log-J", bitEq(A1, Ja));
      t.exp(Ja); manif::exp(t, A1); same("manif::exp-J", bitEq(A1, Ja));
      // only one of the two outputs requested, through the tangent-side form
      { typename MonG::Jacobian B1; t.plus(X, B1, MonG::_); same("t.plus(X)-J_t-only", bitEq(B1, Lt)); t.plus(X, MonG::_, B1); same("t.plus(X)-J_X-only", bitEq(B1, Lm)); }
      Eigen::Matrix<MonS, MonG::Dim, MonG::DoF> Am, Fm; Eigen::Matrix<MonS, MonG::Dim, MonG::Dim> Ap, Fp;
      X.act(p, Am, Ap); manif::act(X, p, Fm, Fp); same("manif::act-J", bitEq(Am, Fm) && bitEq(Ap, Fp));
    }
    // operands as views over user memory give the same bits
    {
      typename MonG::DataType bx = X.coeffs(), by = Y.coeffs(); typename MonT::DataType bt = t.coeffs();
      Eigen::Map<MonG> mx(bx.data()); Eigen::Map<const MonG> my(by.data()); Eigen::Map<const MonT> mt(bt.data());
      same("Map:rplus", bitEq(mx.rplus(mt).coeffs(), Rp.coeffs()));
      same("Map:operator+", bitEq((mx + mt).coeffs(), Rp.coeffs()));
      same("Map:rminus", bitEq(mx.rminus(my).coeffs(), Rm.coeffs()));
      same("Map:operator-", bitEq((mx - my).coeffs(), Rm.coeffs()));
      same("Map:operator*", bitEq((mx * my).coeffs(), Cp.coeffs()));
      same("Map:between", bitEq(mx.between(my).coeffs(), Bw.coeffs()));
      same("Map:t+X", bitEq((mt + X).coeffs(), Lp.coeffs()));
      same("Map:manif::lminus", bitEq(manif::lminus(mx, my).coeffs(), Lm.coeffs()));
    }
  }
  LOG.count("aliases-compared/" + GN(), aliasCount);
  if (i < 2) LOG.sample(caseJ(a, i).s("cellX", lx).s("cellT", lt).s("Y", ly).vecd("X", X.coeffs()).vecd("t", tv).str());
}
