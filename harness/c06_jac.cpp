// C06 monitor: rjac/ljac, their inverses, Adj and adj satisfy their defining identities.
#define MON_NAME "c06_jac"
#include "mon.h"

static const double PI = 3.14159265358979323846;
static double TOLJ() { return 1e-6; }                        // finite-difference grade, as the property states (double)
static double TOLA() { return sizeof(MonS) == 4 ? 2e-5 : 1e-12; }  // purely algebraic identities

static double relF(const ref::BigL& A, const ref::BigL& B) { return (double)((A - B).norm() / (1 + B.norm())); }

void runOnce(const Args&) {}

void runCase(long long i, Prng& r, const Args& a) {
  const ref::Group& g = RG();
  const bool dbl = sizeof(MonS) == 8;
  std::string label;
  GenOpt o; o.thetaMax = PI - 1e-6; o.nearPiMin = 1e-6; o.linMax = 1e6;
  std::vector<MonS> tv = genTangent<MonS>(g, r, o, label);
  // "for every tangent": every 8th case the rotation angle is moved beyond pi (where log never returns, but where a user-made tangent
  // may well be): uniformly in (pi, 4pi) minus 0.3-neighbourhoods of the multiples of 2pi, where rjac/ljac are singular
  if (i % 8 == 7) {
    bool moved = false;
    for (int b = 0; b < g.nb(); ++b) {
      const ref::Elem& e = g.el[b]; if (!e.rot) continue;
      double th0 = 0; for (int q = 0; q < (e.rot == 3 ? 3 : 1); ++q) th0 += (double)tv[g.dofOff[b] + e.rotIdx[q]] * (double)tv[g.dofOff[b] + e.rotIdx[q]];
      th0 = std::sqrt(th0); if (!(th0 > 1e-3)) continue;
      double target; do { target = r.uni(PI + 1e-3, 4 * PI - 0.3); } while (std::fabs(target - 2 * PI) < 0.3);
      for (int q = 0; q < (e.rot == 3 ? 3 : 1); ++q) tv[g.dofOff[b] + e.rotIdx[q]] = (MonS)((double)tv[g.dofOff[b] + e.rotIdx[q]] * (target / th0));
      moved = true;
    }
    if (moved) label = "th>pi/" + label.substr(label.find('/') == std::string::npos ? 0 : label.find('/') + 1);
  }
  MonT t = tangentFrom<MonT>(tv);
  ref::VecL tl = toL(t.coeffs());
  const std::string cellkey = GN() + "/" + label, vkey = GN() + "/" + dropLin(label);
  const bool nontriv = ref::gtheta(g, tl) > 0;
  const double tolj = dbl ? TOLJ() : 1e-2;
  auto rec = [&](const char* what, double e, double tol) {
    LOG.cell(std::string(what) + "/" + cellkey, e, nontriv);
    LOG.maxi(std::string(what) + "-err/" + GN(), e);
    if (!(e <= tol)) LOG.viol(std::string(what) + "/" + vkey, e, caseJ(a, i).vec("t", tv).d("err", e).d("tol", tol).str());
  };

  ref::BigL JrRef = ref::gJr(g, tl), JlRef = ref::gJr(g, -tl);
  ref::BigL Jr = toLM(t.rjac()), Jl = toLM(t.ljac()), Jri = toLM(t.rjacinv()), Jli = toLM(t.ljacinv());
  if (!Jr.allFinite() || !Jl.allFinite() || !Jri.allFinite() || !Jli.allFinite()) {
    LOG.viol("jac-nonfinite/" + vkey, INFINITY, caseJ(a, i).vec("t", tv).str());
    LOG.cell("rjac/" + cellkey, INFINITY, nontriv);
    return;
  }
  rec("rjac", relF(Jr, JrRef), tolj);
  rec("ljac", relF(Jl, JlRef), tolj);
  // inverses: against the inverse of the model Jacobian, and as products
  ref::BigL JrRefInv = ref::bigInverse(JrRef), JlRefInv = ref::bigInverse(JlRef);
  // single precision: groups without a closed-form inverse (SGal3, bundles with it) invert J numerically; with |time*velocity| ~ 1e8 the
  // matrix has condition 1e10 and more, which a float LU cannot resolve to 1e-2 -- a statement about float, not about the code.  Such
  // samples are counted and not judged (double is always judged)
  const double condR = (double)(JrRef.norm() * JrRefInv.norm()), condL = (double)(JlRef.norm() * JlRefInv.norm());
  // beyond u*cond = 0.1 (cond > 2e6 in float) a float inverse computed numerically has no correct digit left: counted, not judged
  const bool resolvable = dbl || std::max(condR, condL) * Sc<MonS>::u() < 0.1;   // double is always judged (observed agreement 1e-14 even at cond 1e19: the matrices are block triangular)
  LOG.count(std::string(resolvable ? "inverse-judged/" : "inverse-not-judged(float,u*cond>=0.1)/") + GN());
  if (getenv("C06_DEBUG")) fprintf(stderr, "cond %g %g errs %g %g\n", condR, condL, (double)relF(Jri, JrRefInv), (double)relF(Jli, JlRefInv));
  if (resolvable) {
    rec("rjacinv", relF(Jri, JrRefInv), tolj);
    rec("ljacinv", relF(Jli, JlRefInv), tolj);
  }
  {
    // product identity, scaled so that blocks of very different magnitude (translations 1e6) do not dominate:
    // || Jrinv * Jr - I ||_F relative to ||Jrinv||_F * ||Jr||_F
    ref::BigL I = ref::BigL::Identity(g.dof, g.dof);
    double e1 = (double)((Jri * Jr - I).norm() / (Jri.norm() * Jr.norm())), e2 = (double)((Jli * Jl - I).norm() / (Jli.norm() * Jl.norm()));
    rec("rjacinv*rjac", e1, tolj);
    rec("ljacinv*ljac", e2, tolj);
  }
  // ljac = (-t).rjac
  rec("ljac-vs-neg-rjac", relF(Jl, toLM((-t).rjac())), dbl ? 1e-9 : 1e-2);
  // smallAdj * s = vee([t^, s^]) : entries are copies / negations / one product
  {
    ref::BigL sa = toLM(t.smallAdj()), sr = ref::gad(g, tl);
    double e = (double)((sa - sr).cwiseAbs().maxCoeff() / std::max((ref::LD)1, sr.cwiseAbs().maxCoeff()));
    rec("smallAdj", e, 4 * Sc<MonS>::u());
  }
  // Adj(exp t) = exp(ad t) = ljac * rjacinv
  MonG X = t.exp();
  ref::GM MX = gmOf(X);
  {
    ref::BigL A = toLM(X.adj());
    rec("adj-vs-model", relF(A, ref::gAdj(g, MX)), TOLA());
    ref::BigL E = ref::BigL::Zero(g.dof, g.dof);
    for (int b = 0; b < g.nb(); ++b) {
      ref::VecL tb = ref::seg(tl, g.dofOff[b], g.el[b].dof);
      E.block(g.dofOff[b], g.dofOff[b], g.el[b].dof, g.el[b].dof) = ref::expm(ref::ad(g.el[b], tb), g.el[b].theta(tb));
    }
    rec("Adj(exp)=exp(ad)", relF(A, E), tolj);
    if (resolvable) rec("Adj(exp)=ljac*rjacinv", relF(A, Jl * Jri), tolj);   // (float only: see above)
  }
  // Adj(X*Y) = Adj(X) Adj(Y), with Y an independent element
  {
    std::string l2; GenOpt o2; o2.thetaMax = PI; o2.nearPiMin = 0; o2.linMax = 1e6;
    MonG Y = groupFrom<MonG>(genElement<MonS>(g, r, o2, l2));
    ref::BigL AX = toLM(X.adj()), AY = toLM(Y.adj()), AXY = toLM((X * Y).adj());
    double e = (double)((AXY - AX * AY).norm() / (1 + AX.norm() * AY.norm()));
    rec("Adj-homomorphism", e, 64 * TOLA());
    rec("adj-vs-model-Y", relF(AY, ref::gAdj(g, gmOf(Y))), TOLA());
  }
  if (i < 2) LOG.sample(caseJ(a, i).s("cell", label).vecd("t", tv).d("rjac_err", relF(Jr, JrRef)).str());
}
