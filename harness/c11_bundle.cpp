// C11 monitor: a Bundle is the direct product of its element groups.
// Every bundle operation is compared, bit for bit, with the same operation on each standalone element group, placed at offsets
// computed by the monitor's own prefix sums (typed-in sizes of harness/model.cpp, not traits<>::*Idx); Jacobians must be
// block-diagonal with exact zeros elsewhere (outputs are pre-filled with NaN so that an unwritten entry is seen as well).
#define MON_NAME "c11_bundle"
#include "mon.h"
#include <cstring>

static const double PI = 3.14159265358979323846;
typedef typename MonG::Jacobian MJ;
typedef Eigen::Matrix<MonS, MonG::Dim, MonG::DoF> MJm;
typedef Eigen::Matrix<MonS, MonG::Dim, MonG::Dim> MJp;
static const int NB = (int)MonG::BundleSize;

template <class A, class B> static bool bitEq(const A& a, const B& b) {
  if (a.rows() != b.rows() || a.cols() != b.cols()) return false;
  for (int j = 0; j < a.cols(); ++j) for (int i = 0; i < a.rows(); ++i) { MonS x = a(i, j), y = b(i, j); if (std::memcmp(&x, &y, sizeof(MonS)) != 0 && !(x == y)) return false; }
  return true;
}

// Jacobians that the generic base obtains as products of full bundle matrices (lplus, lminus, between, ...) are summed by a different
// Eigen kernel than the element-sized products: the same real number, possibly rounded differently -> a few ulp of the block's scale.
template <class A, class B> static bool nearEq(const A& a, const B& b) {
  if (a.rows() != b.rows() || a.cols() != b.cols()) return false;
  double sc = 1; for (int j = 0; j < b.cols(); ++j) for (int i = 0; i < b.rows(); ++i) sc = std::max(sc, std::fabs((double)b(i, j)));
  for (int j = 0; j < a.cols(); ++j) for (int i = 0; i < a.rows(); ++i) { double x = (double)a(i, j), y = (double)b(i, j); if (!(std::fabs(x - y) <= 32 * Sc<MonS>::u() * sc)) return false; }
  return true;
}

struct Ctx {
  const Args* a; long long i; std::string cell; J base;
  MonG X, Y; MonT t, s; typename MonG::Vector p;
  MonG Xinv, comp, betw, rpl, lpl, expT; MonT logX, rmin, lmin, brk;
  MJ Jinv, Jlog, Jexp, Jca, Jcb, Jba, Jbb, Jra, Jrb, Jla, Jlb, Jma, Jmb, Jna, Jnb, adj, rjac, ljac, rjacinv, ljacinv, smallAdj, W;
  typename MonG::Vector act; MJm Jam; MJp Jap;
  typename MonT::LieAlg hat; typename MonG::Transformation tra;
  void viol(const std::string& key, int elem, const std::string& ename) {
    LOG.viol(key + "/" + GN() + "/elem" + std::to_string(elem) + ":" + ename, 1, caseJ(*a, i).s("cell", cell).i("element", elem).raw("inputs", base.str()).str());
  }
};

template <int I, bool End = (I >= NB)> struct ElemCheck {
  static void run(Ctx& c) {
    typedef typename MonG::template Element<I> E; typedef typename E::Tangent ET; typedef typename E::Jacobian EJ;
    const ref::Group& g = RG(); const ref::Elem& e = g.el[I];
    const int ro = g.repOff[I], d0 = g.dofOff[I], po = g.dimOff[I], ao = g.algOff[I], to = g.traOff[I];
    const int nd = E::DoF, nr = E::RepSize, np = E::Dim;
    bool sizes = (nd == e.dof && nr == e.rep && np == e.dim && (int)ET::LieAlg::RowsAtCompileTime == e.alg && (int)E::Transformation::RowsAtCompileTime == e.tra);
    if (!sizes) c.viol("element-sizes-differ-from-documentation", I, e.name);
    // element<i>() aliases exactly the i-th element's coefficients
    {
      auto v = c.X.template element<I>(); const MonG& cx = c.X; auto cv = cx.template element<I>();
      bool ok = (v.data() - c.X.data()) == ro && (cv.data() - cx.data()) == ro;
      auto tv = c.t.template element<I>();
      ok = ok && (tv.data() - c.t.data()) == d0;
      LOG.cell("element-view-offset/" + GN() + "/elem" + std::to_string(I), ok ? 0 : 1);
      if (!ok) c.viol("element-view-wrong-offset", I, e.name);
    }
    // standalone operands from the coefficient segments at the monitor's offsets
    const E Ex(typename E::DataType(c.X.coeffs().template segment<E::RepSize>(ro))), Ey(typename E::DataType(c.Y.coeffs().template segment<E::RepSize>(ro)));
    const ET et(typename ET::DataType(c.t.coeffs().template segment<E::DoF>(d0))), es(typename ET::DataType(c.s.coeffs().template segment<E::DoF>(d0)));
    const typename E::Vector ep = c.p.template segment<E::Dim>(po);
    int bad = 0;
    auto chk = [&](const char* what, bool ok) { LOG.cell(std::string("elementwise/") + what + "/" + GN() + "/elem" + std::to_string(I) + ":" + e.name, ok ? 0 : 1); if (!ok) { ++bad; c.viol(std::string("differs-from-element-operation/") + what, I, e.name); } };
    auto segG = [&](const MonG& B) { return typename E::DataType(B.coeffs().template segment<E::RepSize>(ro)); };
    auto segT = [&](const MonT& B) { return typename ET::DataType(B.coeffs().template segment<E::DoF>(d0)); };
    auto blk = [&](const MJ& M) { return EJ(M.template block<E::DoF, E::DoF>(d0, d0)); };
    EJ Ja, Jb;
    { auto r = Ex.inverse(Ja); chk("inverse", bitEq(segG(c.Xinv), r.coeffs()) && nearEq(blk(c.Jinv), Ja)); }
    { auto r = Ex.log(Ja); chk("log", bitEq(segT(c.logX), r.coeffs()) && nearEq(blk(c.Jlog), Ja)); }
    { auto r = et.exp(Ja); chk("exp", bitEq(segG(c.expT), r.coeffs()) && nearEq(blk(c.Jexp), Ja)); }
    { auto r = Ex.compose(Ey, Ja, Jb); chk("compose", bitEq(segG(c.comp), r.coeffs()) && nearEq(blk(c.Jca), Ja) && nearEq(blk(c.Jcb), Jb)); }
    { auto r = Ex.between(Ey, Ja, Jb); chk("between", bitEq(segG(c.betw), r.coeffs()) && nearEq(blk(c.Jba), Ja) && nearEq(blk(c.Jbb), Jb)); }
    { auto r = Ex.rplus(et, Ja, Jb); chk("rplus", bitEq(segG(c.rpl), r.coeffs()) && nearEq(blk(c.Jra), Ja) && nearEq(blk(c.Jrb), Jb)); }
    { auto r = Ex.lplus(et, Ja, Jb); chk("lplus", bitEq(segG(c.lpl), r.coeffs()) && nearEq(blk(c.Jla), Ja) && nearEq(blk(c.Jlb), Jb)); }
    { auto r = Ex.rminus(Ey, Ja, Jb); chk("rminus", bitEq(segT(c.rmin), r.coeffs()) && nearEq(blk(c.Jma), Ja) && nearEq(blk(c.Jmb), Jb)); }
    { auto r = Ex.lminus(Ey, Ja, Jb); chk("lminus", bitEq(segT(c.lmin), r.coeffs()) && nearEq(blk(c.Jna), Ja) && nearEq(blk(c.Jnb), Jb)); }
    {
      Eigen::Matrix<MonS, E::Dim, E::DoF> Jm; Eigen::Matrix<MonS, E::Dim, E::Dim> Jp;
      auto r = Ex.act(ep, Jm, Jp);
      chk("act", bitEq(typename E::Vector(c.act.template segment<E::Dim>(po)), r) && bitEq(Eigen::Matrix<MonS, E::Dim, E::DoF>(c.Jam.template block<E::Dim, E::DoF>(po, d0)), Jm) &&
                     bitEq(Eigen::Matrix<MonS, E::Dim, E::Dim>(c.Jap.template block<E::Dim, E::Dim>(po, po)), Jp));
    }
    chk("adj", bitEq(blk(c.adj), Ex.adj()));
    chk("rjac", bitEq(blk(c.rjac), et.rjac())); chk("ljac", bitEq(blk(c.ljac), et.ljac()));
    chk("rjacinv", bitEq(blk(c.rjacinv), et.rjacinv())); chk("ljacinv", bitEq(blk(c.ljacinv), et.ljacinv()));
    chk("smallAdj", bitEq(blk(c.smallAdj), et.smallAdj()));
    chk("bracket", bitEq(segT(c.brk), et.bracket(es).coeffs()));
    chk("innerWeights", bitEq(blk(c.W), ET::InnerWeights()));
    { typename ET::LieAlg h = c.hat.template block<ET::LieAlg::RowsAtCompileTime, ET::LieAlg::RowsAtCompileTime>(ao, ao); chk("hat", bitEq(h, et.hat())); }
    { typename E::Transformation T = c.tra.template block<E::Transformation::RowsAtCompileTime, E::Transformation::RowsAtCompileTime>(to, to); chk("transform", bitEq(T, Ex.transform())); }
    if (c.i == 0) {  // generators: the i-th block holds the element's generator, every other entry is zero
      for (int k = 0; k < nd; ++k) {
        typename MonT::LieAlg G = MonT::Generator(d0 + k);
        typename ET::LieAlg Ge = G.template block<ET::LieAlg::RowsAtCompileTime, ET::LieAlg::RowsAtCompileTime>(ao, ao);
        bool ok = bitEq(Ge, ET::Generator(k));
        typename MonT::LieAlg Z = G; Z.template block<ET::LieAlg::RowsAtCompileTime, ET::LieAlg::RowsAtCompileTime>(ao, ao).setZero();
        ok = ok && Z.cwiseAbs().maxCoeff() == 0;
        chk("generator", ok);
      }
    }
    ElemCheck<I + 1>::run(c);
  }
};
template <int I> struct ElemCheck<I, true> { static void run(Ctx&) {} };

// entries outside the diagonal blocks must be exact zeros (and no NaN may be left anywhere)
template <class M> static bool blockDiagonal(const M& m, const std::vector<int>& rOff, const std::vector<int>& rSz, const std::vector<int>& cOff, const std::vector<int>& cSz) {
  for (int j = 0; j < m.cols(); ++j) for (int i = 0; i < m.rows(); ++i) {
    bool inside = false;
    for (size_t b = 0; b < rOff.size(); ++b) if (i >= rOff[b] && i < rOff[b] + rSz[b] && j >= cOff[b] && j < cOff[b] + cSz[b]) inside = true;
    if (m(i, j) != m(i, j)) return false;
    if (!inside && m(i, j) != 0) return false;
  }
  return true;
}

// Random(): the bundle draws each element the way the element group does.  The draws themselves cannot be compared (the order in which
// the elements consume the generator is unspecified), their support can: every rotation block of a random bundle tangent must reach
// angles beyond 2 rad within 400 draws (element-wise: uniform in [-pi, pi] resp. in the ball of radius pi; P(miss) < 1e-50) and never exceed pi
void runOnce(const Args& a) {
  const ref::Group& g = RG();
  std::vector<double> mxStatic(g.nb(), 0.0), mxSet(g.nb(), 0.0), mxMap(g.nb(), 0.0);
  srand((unsigned)(a.seed * 2654435761u + 17));
  typename MonT::DataType buf;
  for (int k = 0; k < 400; ++k) {
    MonT t1 = MonT::Random(), t2; t2.setRandom(); Eigen::Map<MonT> t3(buf.data()); t3.setRandom();
    const MonT* ts[3] = {&t1, &t2, nullptr}; std::vector<double>* mx[3] = {&mxStatic, &mxSet, &mxMap};
    for (int w = 0; w < 3; ++w) for (int b = 0; b < g.nb(); ++b) {
      const ref::Elem& e = g.el[b]; if (!e.rot) continue;
      double th = 0; for (int q = 0; q < (e.rot == 3 ? 3 : 1); ++q) { double c = w < 2 ? (double)ts[w]->coeffs()(g.dofOff[b] + e.rotIdx[q]) : (double)buf(g.dofOff[b] + e.rotIdx[q]); th += c * c; }
      (*mx[w])[b] = std::max((*mx[w])[b], std::sqrt(th));
    }
  }
  const char* nm[3] = {"Random()", "setRandom()", "Map::setRandom()"}; std::vector<double>* mx[3] = {&mxStatic, &mxSet, &mxMap};
  for (int w = 0; w < 3; ++w) for (int b = 0; b < g.nb(); ++b) {
    if (!g.el[b].rot) continue;
    double m = (*mx[w])[b]; bool ok = m > 2.0 && m <= 3.14159265358979323846 * (1 + 1e-6);
    LOG.cell(std::string("tangent-random-support/") + nm[w] + "/" + GN() + "/elem" + std::to_string(b) + ":" + g.el[b].name, ok ? 0 : 1);
    if (!ok) LOG.viol(std::string("tangent-random-not-element-wise/") + nm[w] + "/" + GN() + "/elem" + std::to_string(b) + ":" + g.el[b].name, m, J().d("largest_rotation_angle_in_400_draws", m).str());
  }
}

void runCase(long long i, Prng& r, const Args& a) {
  const ref::Group& g = RG();
  Ctx c; c.a = &a; c.i = i;
  GenOpt o; o.thetaMax = PI - 1e-3; o.nearPiMin = 1e-3; o.linMax = 1e3; o.exactCoeff = 0.03;
  std::string l2;
  c.X = groupFrom<MonG>(genElement<MonS>(g, r, o, c.cell));
  c.t = tangentFrom<MonT>(genTangent<MonS>(g, r, o, l2)); c.s = tangentFrom<MonT>(genTangent<MonS>(g, r, o, l2));
  c.Y = r.coin(0.5) ? c.X.rplus(c.s) : groupFrom<MonG>(genElement<MonS>(g, r, o, l2));
  { std::vector<MonS> pv = genPoint<MonS>(g, r, 1e3); for (int k = 0; k < g.dim; ++k) c.p(k) = pv[k]; }
  c.base.vec("X", c.X.coeffs()).vec("Y", c.Y.coeffs()).vec("t", c.t.coeffs()).vec("s", c.s.coeffs()).vec("p", c.p);
  const MonS nan = std::numeric_limits<MonS>::quiet_NaN();
  for (MJ* m : {&c.Jinv, &c.Jlog, &c.Jexp, &c.Jca, &c.Jcb, &c.Jba, &c.Jbb, &c.Jra, &c.Jrb, &c.Jla, &c.Jlb, &c.Jma, &c.Jmb, &c.Jna, &c.Jnb}) m->setConstant(nan);
  c.Jam.setConstant(nan); c.Jap.setConstant(nan);
  c.Xinv = c.X.inverse(c.Jinv); c.logX = c.X.log(c.Jlog); c.expT = c.t.exp(c.Jexp);
  c.comp = c.X.compose(c.Y, c.Jca, c.Jcb); c.betw = c.X.between(c.Y, c.Jba, c.Jbb);
  c.rpl = c.X.rplus(c.t, c.Jra, c.Jrb); c.lpl = c.X.lplus(c.t, c.Jla, c.Jlb);
  c.rmin = c.X.rminus(c.Y, c.Jma, c.Jmb); c.lmin = c.X.lminus(c.Y, c.Jna, c.Jnb);
  c.act = c.X.act(c.p, c.Jam, c.Jap);
  c.adj = c.X.adj(); c.rjac = c.t.rjac(); c.ljac = c.t.ljac(); c.rjacinv = c.t.rjacinv(); c.ljacinv = c.t.ljacinv(); c.smallAdj = c.t.smallAdj();
  c.brk = c.t.bracket(c.s); c.W = MonT::InnerWeights(); c.hat = c.t.hat(); c.tra = c.X.transform();
  // block structure
  std::vector<int> dsz, psz, asz, tsz; for (auto& e : g.el) { dsz.push_back(e.dof); psz.push_back(e.dim); asz.push_back(e.alg); tsz.push_back(e.tra); }
  struct { const char* n; const MJ* m; } js[] = {{"inverse", &c.Jinv}, {"log", &c.Jlog}, {"exp", &c.Jexp}, {"compose-a", &c.Jca}, {"compose-b", &c.Jcb}, {"between-a", &c.Jba}, {"between-b", &c.Jbb},
    {"rplus-m", &c.Jra}, {"rplus-t", &c.Jrb}, {"lplus-m", &c.Jla}, {"lplus-t", &c.Jlb}, {"rminus-a", &c.Jma}, {"rminus-b", &c.Jmb}, {"lminus-a", &c.Jna}, {"lminus-b", &c.Jnb},
    {"adj", &c.adj}, {"rjac", &c.rjac}, {"ljac", &c.ljac}, {"rjacinv", &c.rjacinv}, {"ljacinv", &c.ljacinv}, {"smallAdj", &c.smallAdj}, {"innerWeights", &c.W}};
  for (auto& j : js) {
    bool ok = blockDiagonal(*j.m, g.dofOff, dsz, g.dofOff, dsz);
    LOG.cell(std::string("block-diagonal/") + j.n + "/" + GN(), ok ? 0 : 1);
    if (!ok) LOG.viol(std::string("jacobian-not-block-diagonal/") + j.n + "/" + GN(), 1, caseJ(a, i).raw("inputs", c.base.str()).str());
  }
  {
    bool ok = blockDiagonal(c.Jam, g.dimOff, psz, g.dofOff, dsz) && blockDiagonal(c.Jap, g.dimOff, psz, g.dimOff, psz) && blockDiagonal(c.hat, g.algOff, asz, g.algOff, asz) && blockDiagonal(c.tra, g.traOff, tsz, g.traOff, tsz);
    LOG.cell("block-diagonal/act+hat+transform/" + GN(), ok ? 0 : 1);
    if (!ok) LOG.viol("not-block-diagonal/act-hat-transform/" + GN(), 1, caseJ(a, i).raw("inputs", c.base.str()).str());
  }
  // a Jacobian requested alone is the same block-diagonal matrix as when both are requested (outputs pre-filled with NaN)
  {
    auto single = [&](const char* n, const MJ& both, const MJ& alone) {
      bool ok = bitEq(both, alone);
      LOG.cell(std::string("single-output/") + n + "/" + GN(), ok ? 0 : 1);
      if (!ok) LOG.viol(std::string("jacobian-requested-alone-differs/") + n + "/" + GN(), 1, caseJ(a, i).raw("inputs", c.base.str()).str());
    };
    MJ A, B;
    A.setConstant(nan); B.setConstant(nan); c.X.compose(c.Y, A, MonG::_); c.X.compose(c.Y, MonG::_, B); single("compose-a", c.Jca, A); single("compose-b", c.Jcb, B);
    A.setConstant(nan); B.setConstant(nan); c.X.between(c.Y, A, MonG::_); c.X.between(c.Y, MonG::_, B); single("between-a", c.Jba, A); single("between-b", c.Jbb, B);
    A.setConstant(nan); B.setConstant(nan); c.X.rplus(c.t, A, MonG::_); c.X.rplus(c.t, MonG::_, B); single("rplus-m", c.Jra, A); single("rplus-t", c.Jrb, B);
    A.setConstant(nan); B.setConstant(nan); c.X.lplus(c.t, A, MonG::_); c.X.lplus(c.t, MonG::_, B); single("lplus-m", c.Jla, A); single("lplus-t", c.Jlb, B);
    A.setConstant(nan); B.setConstant(nan); c.X.rminus(c.Y, A, MonG::_); c.X.rminus(c.Y, MonG::_, B); single("rminus-a", c.Jma, A); single("rminus-b", c.Jmb, B);
    A.setConstant(nan); B.setConstant(nan); c.X.lminus(c.Y, A, MonG::_); c.X.lminus(c.Y, MonG::_, B); single("lminus-a", c.Jna, A); single("lminus-b", c.Jnb, B);
    MJm Am; MJp Ap; Am.setConstant(nan); Ap.setConstant(nan); c.X.act(c.p, Am, tl::optional<Eigen::Ref<MJp>>{}); c.X.act(c.p, tl::optional<Eigen::Ref<MJm>>{}, Ap);
    bool ok = bitEq(c.Jam, Am) && bitEq(c.Jap, Ap);
    LOG.cell("single-output/act/" + GN(), ok ? 0 : 1);
    if (!ok) LOG.viol("jacobian-requested-alone-differs/act/" + GN(), 1, caseJ(a, i).raw("inputs", c.base.str()).str());
  }
  // vee(hat) round trip through the bundle offsets; Random() is valid element-wise
  { MonT v = MonT::Vee(c.hat); if (!bitEq(v.coeffs(), c.t.coeffs())) LOG.viol("vee-of-hat/" + GN(), 1, caseJ(a, i).raw("inputs", c.base.str()).str()); }
  { MonG R = MonG::Random(); double nd = (double)normDev(g, R.coeffs()); LOG.cell("random-valid/" + GN(), nd); if (!(nd < Sc<MonS>::eps())) LOG.viol("random-invalid/" + GN(), nd, J().vec("R", R.coeffs()).str()); }
  ElemCheck<0>::run(c);
  if (i < 2) LOG.sample(caseJ(a, i).s("cell", c.cell).raw("inputs", c.base.str()).str());
}
