// Exact-rational scalar: reduced fraction of two __int128 with overflow detection.  Transcendental functions are defined only
// where the result is exact (sqrt of a perfect-square fraction, sin/cos/atan2 at 0) and throw InexactOp otherwise, so the scalar
// is itself a monitor: an algebraic path that silently goes through a transcendental function or a rounding is observed.
#pragma once
#include <Eigen/Core>
#include <stdexcept>
#include <string>
#include <cstdint>
#include <cmath>
#include <ostream>
#include <limits>

struct RatOverflow : std::runtime_error { RatOverflow() : std::runtime_error("rational overflow") {} };
struct InexactOp : std::runtime_error { explicit InexactOp(const std::string& w) : std::runtime_error("inexact operation on exact scalar: " + w) {} };

struct Rat {
  typedef __int128 I;
  I n, d;  // d > 0, gcd(n,d) = 1
  static I gcd(I a, I b) { if (a < 0) a = -a; if (b < 0) b = -b; while (b) { I t = a % b; a = b; b = t; } return a ? a : 1; }
  static I mul(I a, I b) { I r; if (__builtin_mul_overflow(a, b, &r)) throw RatOverflow(); return r; }
  static I add(I a, I b) { I r; if (__builtin_add_overflow(a, b, &r)) throw RatOverflow(); return r; }
  void norm() { if (d < 0) { n = -n; d = -d; } if (d == 0) throw InexactOp("division by zero"); I g = gcd(n, d); n /= g; d /= g; }
  Rat() : n(0), d(1) {}
  Rat(int v) : n(v), d(1) {}
  Rat(long v) : n(v), d(1) {}
  Rat(long long v) : n(v), d(1) {}
  Rat(unsigned v) : n(v), d(1) {}
  Rat(I num, I den) : n(num), d(den) { norm(); }
  // from a floating literal in the library source (0.5, 1./6., 1./5040., 2.0, ...): the simplest fraction p/q, q <= 1e7, that
  // reproduces the double to 2 ulp (continued fractions); anything else (pi, ...) is an inexact operation
  Rat(double v) : n(0), d(1) {
    if (!(v == v) || v > 9e15 || v < -9e15) throw InexactOp("conversion of a non-finite/huge double");
    double x = v < 0 ? -v : v; long long p0 = 0, q0 = 1, p1 = 1, q1 = 0; double y = x;
    for (int it = 0; it < 40; ++it) {
      long long a = (long long)y; long long p2 = a * p1 + p0, q2 = a * q1 + q0;
      if (q2 > 10000000LL) break;
      p0 = p1; q0 = q1; p1 = p2; q1 = q2;
      double approx = (double)p1 / (double)q1;
      if (approx == x || std::abs(approx - x) <= 4.5e-16 * x) { n = v < 0 ? -(I)p1 : (I)p1; d = q1; norm(); return; }
      double f = y - (double)a; if (f < 1e-300) break; y = 1.0 / f;
    }
    throw InexactOp("conversion of a non-rational double literal");
  }
  double toDouble() const { return (double)n / (double)d; }
  explicit operator double() const { return toDouble(); }
  explicit operator float() const { return (float)toDouble(); }
  explicit operator int() const { return (int)(n / d); }
  explicit operator long double() const { return (long double)n / (long double)d; }
  Rat operator-() const { Rat r; r.n = -n; r.d = d; return r; }
  Rat operator+() const { return *this; }
  Rat& operator+=(const Rat& o) { I g = gcd(d, o.d); I a = mul(n, o.d / g), b = mul(o.n, d / g); n = add(a, b); d = mul(d, o.d / g); norm(); return *this; }
  Rat& operator-=(const Rat& o) { return *this += -o; }
  Rat& operator*=(const Rat& o) { I g1 = gcd(n, o.d), g2 = gcd(o.n, d); I nn = mul(n / g1, o.n / g2), dd = mul(d / g2, o.d / g1); n = nn; d = dd; norm(); return *this; }
  Rat& operator/=(const Rat& o) { if (o.n == 0) throw InexactOp("division by zero"); Rat inv; inv.n = o.d; inv.d = o.n; inv.norm(); return *this *= inv; }
};
inline Rat operator+(Rat a, const Rat& b) { return a += b; }
inline Rat operator-(Rat a, const Rat& b) { return a -= b; }
inline Rat operator*(Rat a, const Rat& b) { return a *= b; }
inline Rat operator/(Rat a, const Rat& b) { return a /= b; }
inline bool operator==(const Rat& a, const Rat& b) { return a.n == b.n && a.d == b.d; }
inline bool operator!=(const Rat& a, const Rat& b) { return !(a == b); }
inline bool operator<(const Rat& a, const Rat& b) { return Rat::mul(a.n, b.d) < Rat::mul(b.n, a.d); }
inline bool operator>(const Rat& a, const Rat& b) { return b < a; }
inline bool operator<=(const Rat& a, const Rat& b) { return !(b < a); }
inline bool operator>=(const Rat& a, const Rat& b) { return !(a < b); }
inline Rat abs(const Rat& a) { return a.n < 0 ? -a : a; }
inline Rat fabs(const Rat& a) { return abs(a); }
inline Rat abs2(const Rat& a) { return a * a; }
inline Rat::I isqrtExact(Rat::I v, bool& ok) { if (v < 0) { ok = false; return 0; } Rat::I r = (Rat::I)std::sqrt((long double)v); while (r * r > v) --r; while ((r + 1) * (r + 1) <= v) ++r; ok = (r * r == v); return r; }
inline Rat sqrt(const Rat& a) { bool o1, o2; Rat::I p = isqrtExact(a.n, o1), q = isqrtExact(a.d, o2); if (!o1 || !o2) throw InexactOp("sqrt"); return Rat(p, q); }
inline Rat sin(const Rat& a) { if (a.n == 0) return Rat(0); throw InexactOp("sin"); }
inline Rat cos(const Rat& a) { if (a.n == 0) return Rat(1); throw InexactOp("cos"); }
inline Rat tan(const Rat& a) { if (a.n == 0) return Rat(0); throw InexactOp("tan"); }
inline Rat atan2(const Rat& y, const Rat& x) { if (y.n == 0 && x.n > 0) return Rat(0); throw InexactOp("atan2"); }
inline Rat acos(const Rat& a) { if (a == Rat(1)) return Rat(0); throw InexactOp("acos"); }
inline Rat asin(const Rat& a) { if (a.n == 0) return Rat(0); throw InexactOp("asin"); }
inline Rat exp(const Rat& a) { if (a.n == 0) return Rat(1); throw InexactOp("exp"); }
inline Rat log(const Rat& a) { if (a == Rat(1)) return Rat(0); throw InexactOp("log"); }
inline Rat cbrt(const Rat&) { throw InexactOp("cbrt"); }
inline bool isfinite(const Rat&) { return true; }
inline bool isnan(const Rat&) { return false; }
inline bool isinf(const Rat&) { return false; }
inline std::ostream& operator<<(std::ostream& s, const Rat& r) { return s << (long long)r.n << "/" << (long long)r.d; }

namespace std {
template <> struct numeric_limits<Rat> {
  static constexpr bool is_specialized = true, is_signed = true, is_integer = false, is_exact = true, has_infinity = false, has_quiet_NaN = false;
  static constexpr int digits = 127, digits10 = 38, max_digits10 = 40;
  static Rat epsilon() { return Rat(1, (Rat::I)1 << 47); }
  static Rat min() { return Rat(1, (Rat::I)1 << 60); }
  static Rat max() { return Rat((Rat::I)1 << 60, 1); }
  static Rat lowest() { return -max(); }
  static Rat infinity() { throw InexactOp("infinity"); }
  static Rat quiet_NaN() { throw InexactOp("NaN"); }
};
}  // namespace std
namespace Eigen {
template <> struct NumTraits<Rat> {
  typedef Rat Real; typedef Rat NonInteger; typedef Rat Nested; typedef Rat Literal;
  static Real epsilon() { return Rat(0); }
  static Real dummy_precision() { return Rat(0); }
  static int digits10() { return 38; }
  static Real highest() { return Rat((Rat::I)1 << 60, 1); }
  static Real lowest() { return -highest(); }
  enum { IsComplex = 0, IsInteger = 0, IsSigned = 1, ReadCost = 2, AddCost = 8, MulCost = 8, RequireInitialization = 1 };
};
}  // namespace Eigen
