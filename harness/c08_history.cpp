// C08 monitor: elements stay valid under arbitrarily long operation histories.
// After EVERY step every live element is checked: finite coefficients, | ||rotation data|| - 1 | below the library's own
// acceptance threshold (recomputed in long double).  With assertions enabled no exception may escape.
#define MON_NAME "c08_history"
#include "grouplist.h"
#include "groups.h"
#include "strata.h"
#include <manif/algorithms/interpolation.h>
#include <manif/algorithms/average.h>
#include <vector>

typedef typename MonG::Scalar MonS;
typedef typename MonG::Tangent MonT;
static std::string GN() { return std::string(MonGName) + "/" + MonSName; }
static const ref::Group& RG() { return groupOf<MonG>(); }
static const double PI = 3.14159265358979323846;
typedef typename manif::internal::traitscast<MonG, float>::cast GF;
typedef typename manif::internal::traitscast<MonG, double>::cast GD_;

static const char* OPN[] = {"exp", "compose", "*=", "inverse", "between", "rplus", "+=", "lplus", "interp-slerp", "interp-cubic", "interp-smooth",
                            "average", "cast-roundtrip", "Random", "from-coeffs", "map-writeback", "assign-product", "X=X*X^-1", "tiny+=", "pi+=", "square"};
enum { NOP = 21 };

static MonT randTangent(Prng& r, double rotScale, double linScale) {
  const ref::Group& g = RG(); std::vector<double> d(g.dof, 0.0);
  for (int b = 0; b < g.nb(); ++b) {
    const ref::Elem& e = g.el[b]; double ax[3]; rotAxis(r, ax);
    if (e.rot == 2) d[g.dofOff[b] + e.rotIdx[0]] = rotScale * r.sign();
    if (e.rot == 3) for (int q = 0; q < 3; ++q) d[g.dofOff[b] + e.rotIdx[q]] = rotScale * ax[q];
    for (int q : e.linIdx) d[g.dofOff[b] + q] = linScale * r.uni(-1, 1);
    if (e.timeIdx >= 0) d[g.dofOff[b] + e.timeIdx] = linScale * r.uni(-1, 1);
  }
  return tangentFrom<MonT>(d);
}
// keep coordinates bounded (overflow of translations under repeated composition is not what is claimed)
static void boundCoords(MonG& X) {
  const ref::Group& g = RG(); bool big = false;
  for (int b = 0; b < g.nb(); ++b) for (int k : g.el[b].linCoef) if (std::fabs((double)X.coeffs()(g.repOff[b] + k)) > 1e6) big = true;
  if (!big) return;
  typename MonG::DataType c = X.coeffs();
  for (int b = 0; b < g.nb(); ++b) for (int k : g.el[b].linCoef) c(g.repOff[b] + k) *= MonS(1e-6);
  X = MonG(c);   // validating constructor: the rotation part is untouched and must still be accepted
}

int main(int argc, char** argv) {
  Args a(argc, argv);
  LOG.monitor = std::string(MON_NAME) + ":" + GN();
  const ref::Group& g = RG();
  const std::string sched = a.get("sched", "uniform");
  const double eps = Sc<MonS>::eps();
  Prng r(a.seed, 0);
  srand((unsigned)a.seed);
  const int POOL = 4;
  std::vector<MonG> pool;
  { GenOpt o; o.thetaMax = PI; o.linMax = 1.0; std::string l; for (int k = 0; k < POOL; ++k) pool.push_back(groupFrom<MonG>(genElement<MonS>(g, r, o, l))); }
  typename MonG::DataType mapbuf = pool[0].coeffs();
  const long long WINDOW = 100000;
  double winMax = 0, allMax = 0; long long renormSeen = 0;
  std::vector<double> windows;
  long long opCount[NOP] = {0};
  const int adversarialOp = sched == "square" ? 20 : sched == "xxinv" ? 17 : sched == "tiny" ? 18 : sched == "pi" ? 19 : sched == "pingpong" ? 3 : -1;
  for (long long step = 0; step < a.n; ++step) {
    int op = adversarialOp >= 0 && r.coin(0.97) ? adversarialOp : r.below(17);
    int ia = r.below(POOL), ib = r.below(POOL), ic = r.below(POOL);
    if (adversarialOp >= 0) ia = 0;
    ++opCount[op];
    std::string before;
    try {
      MonG& A = pool[ia]; MonG& B = pool[ib]; MonG& C = pool[ic];
      switch (op) {
        case 0: C = randTangent(r, r.coin(0.3) ? r.logu(1e-12, 1e-3) : r.uni(0, 2 * PI), r.uni(0, 2)).exp(); break;
        case 1: C = A.compose(B); break;
        case 2: A *= B; break;
        case 3: A = A.inverse(); break;
        case 4: C = A.between(B); break;
        case 5: C = A.rplus(randTangent(r, r.uni(0, PI), 1)); break;
        case 6: A += randTangent(r, r.coin(0.5) ? r.logu(1e-15, 1e-2) : r.uni(0, 4), 1); break;
        case 7: C = A.lplus(randTangent(r, r.uni(0, PI), 1)); break;
        case 8: C = manif::interpolate(A, B, MonS(r.u01())); break;
        case 9: C = manif::interpolate(A, B, MonS(r.u01()), manif::INTERP_METHOD::CUBIC, randTangent(r, 1, 1), randTangent(r, 1, 1)); break;
        case 10: C = manif::interpolate(A, B, MonS(r.u01()), manif::INTERP_METHOD::CNSMOOTH, randTangent(r, 1, 1), randTangent(r, 1, 1)); break;
        case 11: {  // average of a few elements close to A (the documented precondition of the averaging routines)
          std::vector<MonG> cl; int n = 1 + r.below(5);
          for (int k = 0; k < n; ++k) cl.push_back(A.rplus(randTangent(r, r.uni(0, 0.3), 0.3)));
          int w = r.below(4);
          C = w == 0 ? manif::average_biinvariant(cl) : w == 1 ? manif::average_frechet_left(cl) : w == 2 ? manif::average_frechet_right(cl) : manif::average(cl);
          break;
        }
        case 12: {  // cast round trips: the narrow element must be valid in float, the widened one in double
          GF f = A.template cast<float>();
          double ndf = (double)normDev(g, f.coeffs());
          if (!(ndf < Sc<float>::eps()) || !finiteVec(f.coeffs())) LOG.viol("invalid-after/cast<float>/" + GN(), ndf, J().u("seed", a.seed).i("step", step).vec("X", A.coeffs()).vec("cast", f.coeffs()).d("normdev", ndf).str());
          GD_ d2 = f.template cast<double>();
          double ndd = (double)normDev(g, d2.coeffs());
          if (!(ndd < Sc<double>::eps()) || !finiteVec(d2.coeffs())) LOG.viol("invalid-after/cast<double>-of-float/" + GN(), ndd, J().u("seed", a.seed).i("step", step).vec("X", f.coeffs()).vec("cast", d2.coeffs()).d("normdev", ndd).str());
          C = f.template cast<MonS>().template cast<double>().template cast<MonS>();
          break;
        }
        case 13: C = MonG::Random(); break;
        case 14: C = MonG(A.coeffs()); break;
        case 15: { mapbuf = A.coeffs(); Eigen::Map<MonG> m(mapbuf.data()); m *= B; m += randTangent(r, r.uni(0, 1), 1); C = m; break; }
        case 16: A = A * A.inverse() * B; break;
        case 17: A = A * A.inverse(); break;
        case 18: A += randTangent(r, 1e-12, 1e-12); break;
        case 19: A += randTangent(r, PI * r.uni(0.9, 1.1), 1); break;
        case 20: A *= A; break;
      }
    } catch (const std::exception& e) {
      LOG.viol(std::string("exception-escaped/") + OPN[op] + "/" + GN(), 1, J().u("seed", a.seed).i("step", step).s("sched", sched).s("op", OPN[op]).s("what", e.what()).vec("A", pool[ia].coeffs()).vec("B", pool[ib].coeffs()).str());
      GenOpt o; std::string l; pool[ic] = groupFrom<MonG>(genElement<MonS>(g, r, o, l));
      continue;
    }
    for (int k = 0; k < POOL; ++k) {
      try { boundCoords(pool[k]); }
      catch (const std::exception& e) { LOG.viol(std::string("exception-escaped/reconstruct-from-coeffs/") + GN(), 1, J().u("seed", a.seed).i("step", step).s("what", e.what()).vec("X", pool[k].coeffs()).str()); }
      double nd = (double)normDev(g, pool[k].coeffs());
      bool fin = finiteVec(pool[k].coeffs());
      if (nd > winMax) winMax = nd;
      if (nd > 0.25 * eps) ++renormSeen;
      if (!fin || !(nd < eps)) {
        LOG.viol(std::string(fin ? "norm-drift/" : "non-finite/") + OPN[op] + "/" + GN(), nd, J().u("seed", a.seed).i("step", step).s("sched", sched).s("op", OPN[op]).d("normdev", nd).d("eps", eps).vec("X", pool[k].coeffs()).str());
        GenOpt o; std::string l; pool[k] = groupFrom<MonG>(genElement<MonS>(g, r, o, l));
      }
    }
    LOG.evals += 1;
    if ((step + 1) % WINDOW == 0 || step + 1 == a.n) { windows.push_back(winMax); allMax = std::max(allMax, winMax); winMax = 0; }
  }
  // coverage cells: one per (schedule, operation) actually executed
  for (int k = 0; k < NOP; ++k) if (opCount[k]) { auto& c = LOG.cells[std::string("op/") + GN() + "/" + sched + "/" + OPN[k]]; c.n = opCount[k]; c.nontriv = opCount[k]; c.maxerr = allMax; }
  LOG.maxi("normdev-max/" + GN() + "/" + sched, allMax);
  LOG.maxi("normdev-last-window/" + GN() + "/" + sched, windows.empty() ? 0 : windows.back());
  LOG.maxi("normdev-first-window/" + GN() + "/" + sched, windows.empty() ? 0 : windows.front());
  LOG.count("steps/" + GN() + "/" + sched, a.n);
  LOG.count("states-above-quarter-eps/" + GN(), renormSeen);
  { J s; s.s("monitor", LOG.monitor).u("seed", a.seed).s("sched", sched).i("steps", a.n).d("max_normdev", allMax).vecd("window_maxima", windows); LOG.sample(s.str()); }
  LOG.finish();
  return 0;
}
