// C03 monitor: log is the principal inverse of exp on every valid element, however produced.
#define MON_NAME "c03_log"
#include "mon.h"

static double TOL() { return sizeof(MonS) == 4 ? 1e-4 : 1e-8; }
static const double PI = 3.14159265358979323846;
// near pi the closed forms divide (1+cos theta) by sin theta: rounding u in 1+cos theta is amplified by 1/(pi-theta)
static double tolAt(double th) { double u = Sc<MonS>::u(); return TOL() + 16 * u / std::max(PI - th, 16 * u); }

void runOnce(const Args&) {}

// SGal3: the closed forms form products time * velocity, which are the largest intermediate quantities
static ref::LD timeFactor(const ref::VecL& t) {
  const ref::Group& g = RG(); ref::LD f = 1;
  for (int b = 0; b < g.nb(); ++b) if (g.el[b].timeIdx >= 0) f = std::max(f, std::fabs(t(g.dofOff[b] + g.el[b].timeIdx)));
  return f;
}

// negate the rotation data of every block: the other coefficient vector of the same transformation
static MonG negated(const MonG& X) {
  const ref::Group& g = RG();
  typename MonG::DataType c = X.coeffs();
  for (int b = 0; b < g.nb(); ++b) {
    const ref::Elem& e = g.el[b];
    if (e.rot == 3) for (int i = 0; i < 4; ++i) c(g.repOff[b] + e.rotCoef + i) = -c(g.repOff[b] + e.rotCoef + i);
  }
  return MonG(c);
}
static bool hasRot3() { for (auto& e : RG().el) if (e.rot == 3) return true; return false; }
// min |w| over quaternion blocks (distance from the cut locus in coefficient space)
static double minAbsW(const MonG& X) {
  const ref::Group& g = RG(); double m = 1;
  for (int b = 0; b < g.nb(); ++b) if (g.el[b].rot == 3) m = std::min(m, std::fabs((double)X.coeffs()(g.repOff[b] + g.el[b].rotCoef + 3)));
  return m;
}

// difference of the rotation blocks only: the rotation part of log is well conditioned everywhere (also at a half turn, where the
// translation part is not), so exp(log X) must reproduce the rotation of X to rounding for every valid X
static ref::LD rotDiff(const ref::GM& A, const ref::GM& B) {
  const ref::Group& g = RG(); ref::LD m = 0;
  for (int b = 0; b < g.nb(); ++b) { int n = g.el[b].rot; if (n) m = std::max(m, (A[b].topLeftCorner(n, n) - B[b].topLeftCorner(n, n)).cwiseAbs().maxCoeff()); }
  return m;
}

static void checkElement(const MonG& X, const std::string& route, const std::string& label, long long i, const Args& a) {
  const ref::Group& g = RG();
  const std::string cellkey = GN() + "/" + route + "/" + label;
  const std::string vkey = GN() + "/" + route + "/" + dropLin(label);
  MonT t;
  try { t = X.log(); }
  catch (const std::exception& e) { LOG.cell("log/" + cellkey, INFINITY); LOG.viol("log-throws/" + vkey, 1, caseJ(a, i).vec("X", X.coeffs()).s("what", e.what()).str()); return; }
  if (!finiteVec(t.coeffs())) { LOG.cell("log/" + cellkey, INFINITY); LOG.viol("log-nonfinite/" + vkey, INFINITY, caseJ(a, i).vec("X", X.coeffs()).vec("log", t.coeffs()).str()); return; }
  ref::VecL tl = toL(t.coeffs());
  ref::GM M = gmOf(X);
  ref::LD scale = std::max(ref::gscale(M), tl.cwiseAbs().maxCoeff()) * timeFactor(tl);
  // (ii) principal: rotation angle at most pi
  double th = (double)ref::gtheta(g, tl);
  if (!(th <= PI * (1 + 8 * Sc<MonS>::u())))
    LOG.viol("log-not-principal/" + vkey, th - PI, caseJ(a, i).vec("X", X.coeffs()).vec("log", t.coeffs()).d("angle", th).str());
  // (iii) exp_ref(log X) = X as a transformation
  double e3 = (double)(ref::gdiff(ref::gexp(g, tl), M) / scale);
  LOG.cell("log/" + cellkey, e3, th > 0);
  LOG.maxi("explog-err/" + GN(), e3);
  double e3r = (double)rotDiff(ref::gexp(g, tl), M);
  LOG.maxi("explog-rotation-err/" + GN(), e3r);
  if (!(e3r <= 128 * Sc<MonS>::u()))   // observed <= 4 ulp over all routes
    LOG.viol("exp-of-log-rotation/" + vkey, e3r, caseJ(a, i).vec("X", X.coeffs()).vec("log", t.coeffs()).d("err", e3r).str());
  if (!(e3 <= tolAt(th)))
    LOG.viol("exp-of-log/" + vkey, e3, caseJ(a, i).vec("X", X.coeffs()).vec("log", t.coeffs()).d("err", e3).d("tol", TOL()).str());
  // (vi) agreement with the model logarithm (skipped within 1e-7 of the cut locus where the axis sign is ambiguous)
  if (minAbsW(X) > 1e-7 && std::fabs(th - PI) > 1e-6) {
    ref::VecL tr = ref::glog(g, M);
    double e6 = (double)((tl - tr).cwiseAbs().maxCoeff() / (std::max((ref::LD)1, tr.cwiseAbs().maxCoeff()) * timeFactor(tr)));
    LOG.cell("log-vs-model/" + cellkey, e6, th > 0);
    LOG.maxi("log-vs-model-err/" + GN(), e6);
    if (!(e6 <= tolAt(th)))
      LOG.viol("log-vs-model/" + vkey, e6, caseJ(a, i).vec("X", X.coeffs()).vec("log", t.coeffs()).vec("model", tr).d("err", e6).str());
  }
  // (v) q and -q have the same logarithm
  if (hasRot3() && minAbsW(X) > 1e-6) {
    MonT t2 = negated(X).log();
    double e5 = 0, sc = 1;
    for (int k = 0; k < g.dof; ++k) { e5 = std::max(e5, std::fabs((double)t.coeffs()(k) - (double)t2.coeffs()(k))); sc = std::max(sc, std::fabs((double)t.coeffs()(k))); }
    e5 /= sc;
    LOG.cell("log-double-cover/" + cellkey, e5, th > 0);
    if (!(e5 <= 64 * Sc<MonS>::u()))
      LOG.viol("log-double-cover/" + vkey, e5, caseJ(a, i).vec("X", X.coeffs()).vec("log_q", t.coeffs()).vec("log_minus_q", t2.coeffs()).str());
  }
  if (i < 2) LOG.sample(caseJ(a, i).s("route", route).s("cell", label).vecd("X", X.coeffs()).vecd("log", t.coeffs()).d("exp_of_log_err", e3).str());
}

void runCase(long long i, Prng& r, const Args& a) {
  const ref::Group& g = RG();
  std::string label;
  int route = (int)(i % 8);
  GenOpt o; o.thetaMax = PI; o.nearPiMin = 0; o.linMax = 1e6;
  if (route == 0 || route == 1) {  // independently built element, both hemispheres
    std::vector<MonS> c = genElement<MonS>(g, r, o, label);
    MonG X = groupFrom<MonG>(c);
    checkElement(X, "coeffs", label, i, a);
    if (route == 1) checkElement(X.inverse(), "inverse", label, i, a);
  } else if (route == 2 || route == 3) {  // exp of a tangent, incl. beyond pi; round trip inside the injectivity radius
    GenOpt o2 = o; o2.beyondPi = (route == 3); o2.thetaMax = route == 3 ? 13.0 : PI;
    std::vector<MonS> tv = genTangent<MonS>(g, r, o2, label);
    MonT t = tangentFrom<MonT>(tv);
    MonG X = t.exp();
    checkElement(X, route == 3 ? "exp-beyond-pi" : "exp", label, i, a);
    ref::VecL tl = toL(t.coeffs());
    double th = (double)ref::gtheta(g, tl);
    if (th < PI - 1e-6) {
      MonT t2 = X.log();
      double e = 0, sc = 1;
      for (int k = 0; k < g.dof; ++k) { e = std::max(e, std::fabs((double)t.coeffs()(k) - (double)t2.coeffs()(k))); sc = std::max(sc, std::fabs((double)t.coeffs()(k))); }
      e /= sc * (double)timeFactor(tl);
      // conditioning of the round trip near pi: the rotation vector is recovered from sin(theta/2), cos(theta/2)
      LOG.cell("log-exp-roundtrip/" + GN() + "/" + label, e, th > 0);
      LOG.maxi("roundtrip-err/" + GN(), e);
      if (!(e <= tolAt(th)))
        LOG.viol("log-exp-roundtrip/" + GN() + "/" + dropLin(label), e, caseJ(a, i).vec("t", tv).vec("X", X.coeffs()).vec("log", t2.coeffs()).d("err", e).str());
    }
  } else if (route == 4) {  // product of two near-pi rotations about (almost) the same axis: angle 2pi - epsilon, w < 0, tiny vector part
    std::vector<double> ta(g.dof, 0.0), tb(g.dof, 0.0);
    static const double dl[] = {1e-3, 1e-5, 1e-7, 1e-8, 1e-9, 1e-10, 1e-12, 0};
    double d1 = dl[r.below(8)] * r.uni(0.3, 1), d2 = dl[r.below(8)] * r.uni(0.3, 1), tilt = dl[r.below(8)];
    for (int b = 0; b < g.nb(); ++b) {
      const ref::Elem& e = g.el[b]; int off = g.dofOff[b];
      double ax[3]; rotAxis(r, ax);
      if (e.rot == 2) { double s = r.sign(); ta[off + e.rotIdx[0]] = s * (PI - d1); tb[off + e.rotIdx[0]] = s * (PI - d2); }
      if (e.rot == 3) {
        double q[3]; randDir(r, 3, q); double ax2[3], n = 0;
        for (int k = 0; k < 3; ++k) { ax2[k] = ax[k] + tilt * q[k]; n += ax2[k] * ax2[k]; }
        n = std::sqrt(n);
        for (int k = 0; k < 3; ++k) { ta[off + e.rotIdx[k]] = (PI - d1) * ax[k]; tb[off + e.rotIdx[k]] = (PI - d2) * ax2[k] / n; }
      }
      double mag = sampleLinMag(r, 1e3);
      for (int k : e.linIdx) { ta[off + k] = mag * r.uni(-1, 1); tb[off + k] = mag * r.uni(-1, 1); }
      if (e.timeIdx >= 0) { ta[off + e.timeIdx] = r.uni(-1, 1); tb[off + e.timeIdx] = r.uni(-1, 1); }
    }
    MonG X = tangentFrom<MonT>(ta).exp() * tangentFrom<MonT>(tb).exp();
    auto cls = [](double v) { return v >= 1e-6 ? ">=1e-6" : v >= 1e-9 ? "[1e-9,1e-6)" : "<1e-9"; };
    std::string lb = std::string("2pi-eps") + cls(d1 + d2) + "/tilt" + cls(tilt);
    checkElement(X, "near-pi-product", lb, i, a);
  } else if (route == 7) {  // elements given by exact coefficients: pure quaternions (w = +0 / -0: exact half turns), signed zeros, axis-aligned and 3-4-5 values
    static const double Q[][4] = {{1, 0, 0, 0}, {0, 1, 0, 0}, {0, 0, 1, 0}, {0.6, 0, 0.8, 0}, {-0.6, 0.8, 0, 0}, {0, -0.28, 0.96, 0}, {0, 0, 0, 1}, {0, 0, 0, -1},
                                  {0.5, 0.5, 0.5, 0.5}, {0.5, -0.5, 0.5, -0.5}, {0.6, 0, 0, 0.8}, {0, 0.8, 0, -0.6}, {0, 0, 0.28, 0.96}, {0.96, 0, 0, -0.28}};
    static const double C[][2] = {{-1, 0}, {0, 1}, {0, -1}, {1, 0}, {0.6, 0.8}, {-0.6, 0.8}, {-0.8, -0.6}, {0.28, -0.96}, {-0.96, 0.28}};
    typename MonG::DataType c; c.setZero(); std::string lb = "exact";
    for (int b = 0; b < g.nb(); ++b) {
      const ref::Elem& e = g.el[b]; const int ro = g.repOff[b];
      for (int k = 0; k < e.rep; ++k) c(ro + k) = (MonS)(r.coin(0.3) ? 0.0 : r.uni(-2, 2));   // linear / time coefficients
      if (e.rot == 3) { int q = r.below((int)(sizeof Q / sizeof Q[0])); for (int k = 0; k < 4; ++k) { double v = Q[q][k]; if (v == 0 && r.coin(0.5)) v = -0.0; c(ro + e.rotCoef + k) = (MonS)v; } if (Q[q][3] == 0) lb = "exact/w=0"; }
      if (e.rot == 2) { int q = r.below((int)(sizeof C / sizeof C[0])); for (int k = 0; k < 2; ++k) { double v = C[q][k]; if (v == 0 && r.coin(0.5)) v = -0.0; c(ro + e.rotCoef + k) = (MonS)v; } if (C[q][0] == -1) lb = "exact/real=-1"; }
    }
    MonG X;
    try { X = MonG(c); } catch (const std::exception& e) { LOG.viol("valid-coefficients-rejected/" + GN(), 1, caseJ(a, i).vec("c", c).s("what", e.what()).str()); return; }
    checkElement(X, "exact-coefficients", lb, i, a);
  } else if (route == 5) {  // the library's own Random()
    MonG X = MonG::Random();
    checkElement(X, "Random", "random", i, a);
  } else {  // long composition chains of large rotations: elements reachable only through histories (both hemispheres, renormalised products)
    int k = 3 + r.below(40);
    MonG X = MonG::Identity();
    for (int f = 0; f < k; ++f) {
      std::vector<double> tv(g.dof, 0.0);
      for (int b = 0; b < g.nb(); ++b) {
        const ref::Elem& e = g.el[b]; int off = g.dofOff[b]; double ax[3]; rotAxis(r, ax); double th = r.uni(2.0, PI);
        if (e.rot == 2) tv[off + e.rotIdx[0]] = th * r.sign();
        if (e.rot == 3) for (int q = 0; q < 3; ++q) tv[off + e.rotIdx[q]] = th * ax[q];
        for (int q : e.linIdx) tv[off + q] = r.uni(-1, 1);
        if (e.timeIdx >= 0) tv[off + e.timeIdx] = r.uni(-0.2, 0.2);
      }
      MonG F = tangentFrom<MonT>(tv).exp();
      X = r.coin(0.8) ? X * F : F.inverse() * X;
    }
    checkElement(X, "composition-chain", k < 10 ? "k<10" : k < 25 ? "k<25" : "k>=25", i, a);
  }
}
