// C17 monitor: De Casteljau curve fitting terminates, stays in bounds and interpolates.
// Every configuration (N, degree, k, closed, trajectory kind) runs in its own forked child under ASan/UBSan with
// -D_GLIBCXX_ASSERTIONS; the parent is the watchdog.  For this property a hang / abort / sanitizer report IS a violation.
#define MON_NAME "c17_decasteljau"
#include "grouplist.h"
#include "groups.h"
#include "strata.h"
#include <manif/algorithms/decasteljau.h>
#include <unistd.h>
#include <sys/wait.h>
#include <sys/select.h>
#include <sys/time.h>
#include <signal.h>
#include <fcntl.h>
#include <fstream>
#include <iostream>

typedef typename MonG::Scalar MonS;
typedef typename MonG::Tangent MonT;
using ref::GM; using ref::VecL; using ref::LD;
static std::string GN() { return std::string(MonGName) + "/" + MonSName; }
static const ref::Group& RG() { return groupOf<MonG>(); }
static const double PI = 3.14159265358979323846;

struct Cfg { int N, d, k, closed, kind; long long idx; };
static const char* KIND[] = {"smooth", "identical", "large-steps", "tiny-steps"};

static std::vector<MonG> makeTrajectory(const Cfg& c, Prng& r) {
  const ref::Group& g = RG();
  std::vector<MonG> tr;
  GenOpt o; o.thetaMax = 1.0; o.linMax = 1.0; o.tinyTheta = false;
  std::string l;
  MonG X = groupFrom<MonG>(genElement<MonS>(g, r, o, l));
  for (int n = 0; n < c.N; ++n) {
    tr.push_back(X);
    std::vector<double> st(g.dof);
    double rs = c.kind == 2 ? r.uni(1.0, 2.6) : c.kind == 3 ? 1e-9 : r.uni(0.05, 0.5);
    for (int b = 0; b < g.nb(); ++b) {
      const ref::Elem& e = g.el[b]; double ax[3]; rotAxis(r, ax);
      if (e.rot == 2) st[g.dofOff[b] + e.rotIdx[0]] = rs * r.sign();
      if (e.rot == 3) for (int q = 0; q < 3; ++q) st[g.dofOff[b] + e.rotIdx[q]] = rs * ax[q];
      for (int q : e.linIdx) st[g.dofOff[b] + q] = r.uni(-1, 1) * (c.kind == 3 ? 1e-9 : 1.0);
      if (e.timeIdx >= 0) st[g.dofOff[b] + e.timeIdx] = r.uni(-0.5, 0.5);
    }
    if (c.kind != 1) X = X.rplus(tangentFrom<MonT>(st));
  }
  return tr;
}

// reference De Casteljau on the model: repeated geodesic interpolation of the window's control points
static GM refCurvePoint(const std::vector<GM>& ctrl, LD t) {
  const ref::Group& g = RG();
  std::vector<GM> Q = ctrl;
  while (Q.size() > 1) {
    std::vector<GM> Qn;
    for (size_t q = 0; q + 1 < Q.size(); ++q) { VecL d = ref::gminus(g, Q[q + 1], Q[q]) * t; Qn.push_back(ref::gplus(g, Q[q], d)); }
    Q = Qn;
  }
  return Q[0];
}

// the case itself, executed in the child; writes one JSON line to fd
static void childRun(const Cfg& c, uint64_t seed, int fd) {
  const ref::Group& g = RG();
  Prng r(seed, (uint64_t)c.idx);
  std::vector<MonG> tr = makeTrajectory(c, r);
  J out;
  std::string verdict = "ok"; double mag = 0; std::string detail;
  std::vector<MonG> curve;
  bool threw = false; std::string what;
  try { curve = manif::decasteljau(tr, (unsigned)c.d, (unsigned)c.k, c.closed != 0); }
  catch (const std::exception& e) { threw = true; what = e.what(); }
  const bool mustThrow = c.N < 3 || c.d > c.N || c.k == 0;
  if (mustThrow) {
    if (!threw) { verdict = "did-not-raise"; mag = 1; }
  } else if (threw) { verdict = "raised-on-valid-input"; mag = 1; detail = what; }
  else {
    // model of the documented windows
    const int W = (c.N - c.d) / (c.d - 1) + 1;
    std::vector<std::vector<int>> win;
    for (int j = 0; j < W; ++j) { std::vector<int> w; for (int n = 0; n < c.d; ++n) w.push_back(j * (c.d - 1) + n); win.push_back(w); }
    const int last = (W - 1) * (c.d - 1) + c.d - 1;   // index of the last used point
    const int leftover = c.N - 1 - last;
    if (leftover >= c.d - 1 || leftover < 0) { verdict = "model-error"; mag = 1; }
    if (c.closed) {
      std::vector<int> w; for (int p = last; p < c.N; ++p) w.push_back(p);
      for (int p = 0; (int)w.size() < c.d; ++p) w.push_back(p);
      win.push_back(w);
    }
    const int segk = c.d == 2 ? c.k : c.k * c.d;
    const size_t expect = win.size() * (size_t)segk;
    if (curve.size() != expect) {
      verdict = "wrong-number-of-points"; mag = std::fabs((double)curve.size() - (double)expect);
      detail = "returned " + std::to_string(curve.size()) + " expected " + std::to_string(expect);
    } else {
      std::vector<GM> M; for (auto& X : tr) M.push_back(gmOf(X));
      double worst = 0, worstEnd = 0; bool fin = true;
      for (size_t s = 0; s < win.size() && verdict == "ok"; ++s) {
        std::vector<GM> ctrl; for (int p : win[s]) ctrl.push_back(M[p]);
        for (int t = 1; t <= segk; ++t) {
          const MonG& P = curve[s * segk + (t - 1)];
          if (!finiteVec(P.coeffs())) { fin = false; break; }
          GM Mp = gmOf(P), Rp = refCurvePoint(ctrl, (LD)t / (LD)segk);
          double e = (double)(ref::gdiff(Mp, Rp) / ref::gscale(Rp));
          worst = std::max(worst, e);
          if (t == segk) worstEnd = std::max(worstEnd, (double)(ref::gdiff(Mp, ctrl.back()) / ref::gscale(Rp)));
          double nd = (double)normDev(g, P.coeffs());
          if (!(nd < Sc<MonS>::eps())) { verdict = "invalid-curve-point"; mag = nd; }
        }
      }
      if (!fin) { verdict = "non-finite-curve-point"; mag = INFINITY; }
      // tolerance: the curve point is a composition of up to d(d-1)/2 exp/log round trips
      const double tol = (sizeof(MonS) == 4 ? 2e-3 : 1e-7);
      if (verdict == "ok" && !(worstEnd <= tol)) { verdict = "window-end-not-last-control-point"; mag = worstEnd; }
      if (verdict == "ok" && !(worst <= tol)) { verdict = c.d == 2 ? "not-on-geodesic" : "differs-from-reference-decasteljau"; mag = worst; }
      out.d("max_err", worst).d("max_end_err", worstEnd).u("points", curve.size()).u("windows", win.size());
    }
  }
  out.s("verdict", verdict).d("mag", mag).s("detail", detail).i("threw", threw);
  std::string s = out.str() + "\n";
  ssize_t wr = write(fd, s.data(), s.size()); (void)wr;
}

int main(int argc, char** argv) {
  Args a(argc, argv);
  LOG.monitor = std::string(MON_NAME) + ":" + GN();
  for (auto& e : RG().el) { std::string s = ref::selfCheck(e, 7); if (!s.empty()) { fprintf(stderr, "reference model self-check failed: %s\n", s.c_str()); return 2; } }
  const int Nmax = atoi(a.get("Nmax", "10").c_str()), kmax = atoi(a.get("kmax", "3").c_str()), ntraj = atoi(a.get("ntraj", "1").c_str());
  const double timeout_s = atof(a.get("timeout", "30").c_str());
  int shard = 0, nshard = 1; sscanf(a.get("shard", "0/1").c_str(), "%d/%d", &shard, &nshard);
  const std::string argsJson = "[\"Nmax=" + a.get("Nmax", "10") + "\",\"kmax=" + a.get("kmax", "3") + "\",\"ntraj=" + a.get("ntraj", "1") + "\"]";
  std::vector<Cfg> cfgs;
  long long idx = 0;
  for (int N = 3; N <= Nmax; ++N) for (int d = 2; d <= N; ++d) for (int k = 1; k <= kmax; ++k) for (int cl = 0; cl < 2; ++cl)
    for (int tj = 0; tj < ntraj; ++tj) { Cfg c{N, d, k, cl, tj == 0 ? (int)((idx / 2) % 4) : tj % 4, idx}; cfgs.push_back(c); ++idx; }
  // inputs that must raise
  for (int N = 0; N <= 2; ++N) for (int d = 2; d <= 3; ++d) { cfgs.push_back(Cfg{N, d, 1, 0, 0, idx}); ++idx; cfgs.push_back(Cfg{N, d, 2, 1, 0, idx}); ++idx; }
  for (int N = 3; N <= 6; ++N) { cfgs.push_back(Cfg{N, N + 1, 1, 0, 0, idx}); ++idx; cfgs.push_back(Cfg{N, N + 3, 2, 1, 0, idx}); ++idx; cfgs.push_back(Cfg{N, 2, 0, 0, 0, idx}); ++idx; cfgs.push_back(Cfg{N, N, 0, 1, 0, idx}); ++idx; }

  char errfile[256]; snprintf(errfile, sizeof errfile, "%s.child-stderr", a.out.empty() ? "/dev/null" : a.out.c_str());
  for (const Cfg& c : cfgs) {
    if (a.only >= 0 && c.idx != a.only) continue;
    if (a.only < 0 && (int)(c.idx % nshard) != shard) continue;
    char lab[128]; snprintf(lab, sizeof lab, "N=%d/d=%d/k=%d/%s/%s", c.N, c.d, c.k, c.closed ? "closed" : "open", KIND[c.kind]);
    const std::string cell = GN() + "/" + lab;
    char vk[128]; snprintf(vk, sizeof vk, "d%s/%s", c.d == 2 ? "=2" : ">2", c.closed ? "closed" : "open");
    J cj; cj.s("monitor", LOG.monitor).u("seed", a.seed).i("idx", c.idx).s("group", GN()).i("N", c.N).i("degree", c.d).i("k", c.k).i("closed", c.closed).s("trajectory", KIND[c.kind]).raw("args", argsJson);
    std::string verdict, line; double mag = 0;
    for (int attempt = 0; attempt < 2; ++attempt) {
      int pfd[2]; if (pipe(pfd)) { perror("pipe"); return 2; }
      pid_t pid = fork();
      if (pid < 0) { perror("fork"); return 2; }
      if (pid == 0) {
        close(pfd[0]);
        int ef = open(errfile, O_WRONLY | O_CREAT | O_TRUNC, 0644); if (ef >= 0) { dup2(ef, 2); close(ef); }
        childRun(c, a.seed, pfd[1]);
        _exit(0);
      }
      close(pfd[1]);
      // watchdog
      line.clear(); bool timed = false;
      struct timeval t0; gettimeofday(&t0, 0);
      for (;;) {
        fd_set fs; FD_ZERO(&fs); FD_SET(pfd[0], &fs);
        struct timeval now; gettimeofday(&now, 0);
        double el = (now.tv_sec - t0.tv_sec) + 1e-6 * (now.tv_usec - t0.tv_usec);
        if (el > timeout_s) { timed = true; break; }
        struct timeval tv; tv.tv_sec = 0; tv.tv_usec = 200000;
        int rc = select(pfd[0] + 1, &fs, 0, 0, &tv);
        if (rc > 0) { char buf[4096]; ssize_t n = read(pfd[0], buf, sizeof buf); if (n <= 0) break; line.append(buf, n); }
      }
      close(pfd[0]);
      int st = 0;
      if (timed) { kill(pid, SIGKILL); waitpid(pid, &st, 0); verdict = "does-not-terminate"; mag = timeout_s; if (attempt == 0) continue; break; }
      waitpid(pid, &st, 0);
      if (!(WIFEXITED(st) && WEXITSTATUS(st) == 0) || line.empty()) {
        std::ifstream ef(errfile); std::string err((std::istreambuf_iterator<char>(ef)), std::istreambuf_iterator<char>());
        std::string kind = "abort";
        if (err.find("AddressSanitizer") != std::string::npos) { size_t p = err.find("AddressSanitizer: "); kind = "asan-" + err.substr(p + 18, err.find_first_of(" \n", p + 18) - p - 18); }
        else if (err.find("runtime error") != std::string::npos) kind = "ubsan";
        else if (err.find("Assertion") != std::string::npos || err.find("__n < this->size()") != std::string::npos) kind = "out-of-range-index-assertion";
        else if (err.find("bad_alloc") != std::string::npos || err.find("length_error") != std::string::npos) kind = "unbounded-allocation";
        verdict = kind; mag = INFINITY; cj.s("stderr_tail", err.size() > 1500 ? err.substr(0, 1500) : err);
      } else {
        size_t p = line.find("\"verdict\":\""); size_t q = line.find('"', p + 11);
        verdict = line.substr(p + 11, q - p - 11);
        size_t m = line.find("\"mag\":"); mag = atof(line.c_str() + m + 6); if (line.compare(m + 6, 5, "\"inf\"") == 0) mag = INFINITY;
        cj.raw("result", line.substr(0, line.find('\n')));
      }
      break;
    }
    LOG.cell("decasteljau/" + cell, verdict == "ok" ? 0 : 1, c.N >= 3);
    if (verdict != "ok") LOG.viol(verdict + "/" + GN() + "/" + vk, mag, cj.str());
    if (c.idx < 2) LOG.sample(cj.s("verdict", verdict).str());
  }
  unlink(errfile);
  LOG.finish();
  return 0;
}
