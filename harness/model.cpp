// Reference model implementation (see model.h).  Compiled once, -O2, linked into every monitor.
#include "model.h"
namespace ref {
MatL Elem::E(int n, int r, int c) { MatL m = MatL::Zero(n, n); m(r, c) = 1; return m; }
  MatL Elem::Skew3(int n, int a) {  // generator of rotation about axis a embedded top-left
    MatL m = MatL::Zero(n, n);
    if (a == 0) { m(1, 2) = -1; m(2, 1) = 1; }
    if (a == 1) { m(0, 2) = 1; m(2, 0) = -1; }
    if (a == 2) { m(0, 1) = -1; m(1, 0) = 1; }
    return m;
  }
  Elem Elem::make(Kind k, int n) {
    Elem e; e.kind = k; e.timeIdx = -1; e.rotCoef = -1; e.rot = 0;
    switch (k) {
      case K_SO2: e.name = "SO2"; e.dof = 1; e.rep = 2; e.dim = 2; e.alg = 2; e.tra = 3; e.rot = 2;
        e.rotIdx = {0}; e.rotCoef = 0;
        { MatL g = MatL::Zero(2, 2); g(0, 1) = -1; g(1, 0) = 1; e.G = {g}; }
        break;
      case K_SE2: e.name = "SE2"; e.dof = 3; e.rep = 4; e.dim = 2; e.alg = 3; e.tra = 3; e.rot = 2;
        e.rotIdx = {2}; e.linIdx = {0, 1}; e.rotCoef = 2; e.linCoef = {0, 1};
        { MatL g = MatL::Zero(3, 3); g(0, 1) = -1; g(1, 0) = 1; e.G = {E(3, 0, 2), E(3, 1, 2), g}; }
        break;
      case K_SO3: e.name = "SO3"; e.dof = 3; e.rep = 4; e.dim = 3; e.alg = 3; e.tra = 4; e.rot = 3;
        e.rotIdx = {0, 1, 2}; e.rotCoef = 0;
        e.G = {Skew3(3, 0), Skew3(3, 1), Skew3(3, 2)};
        break;
      case K_SE3: e.name = "SE3"; e.dof = 6; e.rep = 7; e.dim = 3; e.alg = 4; e.tra = 4; e.rot = 3;
        e.rotIdx = {3, 4, 5}; e.linIdx = {0, 1, 2}; e.rotCoef = 3; e.linCoef = {0, 1, 2};
        e.G = {E(4, 0, 3), E(4, 1, 3), E(4, 2, 3), Skew3(4, 0), Skew3(4, 1), Skew3(4, 2)};
        break;
      case K_SE23: e.name = "SE_2_3"; e.dof = 9; e.rep = 10; e.dim = 3; e.alg = 5; e.tra = 5; e.rot = 3;
        // tangent (rho, theta, a): translation in column 3, velocity in column 4
        e.rotIdx = {3, 4, 5}; e.linIdx = {0, 1, 2, 6, 7, 8}; e.rotCoef = 3; e.linCoef = {0, 1, 2, 7, 8, 9};
        e.G = {E(5, 0, 3), E(5, 1, 3), E(5, 2, 3), Skew3(5, 0), Skew3(5, 1), Skew3(5, 2), E(5, 0, 4), E(5, 1, 4), E(5, 2, 4)};
        break;
      case K_SGAL3: e.name = "SGal3"; e.dof = 10; e.rep = 11; e.dim = 3; e.alg = 5; e.tra = 5; e.rot = 3;
        // tangent (rho, nu, theta, iota): nu in column 3, rho in column 4, iota at (3,4)
        e.rotIdx = {6, 7, 8}; e.linIdx = {0, 1, 2, 3, 4, 5}; e.timeIdx = 9; e.rotCoef = 3; e.linCoef = {0, 1, 2, 7, 8, 9, 10};
        e.G = {E(5, 0, 4), E(5, 1, 4), E(5, 2, 4), E(5, 0, 3), E(5, 1, 3), E(5, 2, 3), Skew3(5, 0), Skew3(5, 1), Skew3(5, 2), E(5, 3, 4)};
        break;
      case K_RN: e.name = "R" + std::to_string(n); e.dof = n; e.rep = n; e.dim = n; e.alg = n + 1; e.tra = n + 1; e.rot = 0;
        for (int i = 0; i < n; ++i) { e.linIdx.push_back(i); e.linCoef.push_back(i); e.G.push_back(E(n + 1, i, n)); }
        break;
    }
    return e;
  }

  // hat: sum t_i G_i
  MatL Elem::hat(const VecL& t) const {
    MatL m = MatL::Zero(alg, alg);
    for (int i = 0; i < dof; ++i) m += t(i) * G[i];
    return m;
  }
  // vee: pick the documented coefficient positions
  VecL Elem::vee(const MatL& A) const {
    VecL t(dof);
    switch (kind) {
      case K_SO2: t(0) = A(1, 0); break;
      case K_SE2: t(0) = A(0, 2); t(1) = A(1, 2); t(2) = A(1, 0); break;
      case K_SO3: t(0) = A(2, 1); t(1) = A(0, 2); t(2) = A(1, 0); break;
      case K_SE3: for (int i = 0; i < 3; ++i) t(i) = A(i, 3); t(3) = A(2, 1); t(4) = A(0, 2); t(5) = A(1, 0); break;
      case K_SE23: for (int i = 0; i < 3; ++i) { t(i) = A(i, 3); t(6 + i) = A(i, 4); } t(3) = A(2, 1); t(4) = A(0, 2); t(5) = A(1, 0); break;
      case K_SGAL3: for (int i = 0; i < 3; ++i) { t(i) = A(i, 4); t(3 + i) = A(i, 3); } t(6) = A(2, 1); t(7) = A(0, 2); t(8) = A(1, 0); t(9) = A(3, 4); break;
      case K_RN: for (int i = 0; i < dof; ++i) t(i) = A(i, dof); break;
    }
    return t;
  }
  LD Elem::theta(const VecL& t) const { LD s = 0; for (int i : rotIdx) s += t(i) * t(i); return std::sqrt(s); }

  // coefficient vector -> group matrix (alg x alg); the rotation data are normalised in long double so that the
  // matrix is the transformation the coefficient vector denotes.
  MatL Elem::toMatL(const LD* c) const {
    MatL M = MatL::Identity(alg, alg);
    if (rot == 2) {
      LD re = c[rotCoef], im = c[rotCoef + 1], n = std::sqrt(re * re + im * im); re /= n; im /= n;
      M(0, 0) = re; M(0, 1) = -im; M(1, 0) = im; M(1, 1) = re;
    } else if (rot == 3) {
      LD x = c[rotCoef], y = c[rotCoef + 1], z = c[rotCoef + 2], w = c[rotCoef + 3];
      LD n = std::sqrt(x * x + y * y + z * z + w * w); x /= n; y /= n; z /= n; w /= n;
      M(0, 0) = 1 - 2 * (y * y + z * z); M(0, 1) = 2 * (x * y - z * w); M(0, 2) = 2 * (x * z + y * w);
      M(1, 0) = 2 * (x * y + z * w); M(1, 1) = 1 - 2 * (x * x + z * z); M(1, 2) = 2 * (y * z - x * w);
      M(2, 0) = 2 * (x * z - y * w); M(2, 1) = 2 * (y * z + x * w); M(2, 2) = 1 - 2 * (x * x + y * y);
    }
    switch (kind) {
      case K_SE2: M(0, 2) = c[0]; M(1, 2) = c[1]; break;
      case K_SE3: for (int i = 0; i < 3; ++i) M(i, 3) = c[i]; break;
      case K_SE23: for (int i = 0; i < 3; ++i) { M(i, 3) = c[i]; M(i, 4) = c[7 + i]; } break;
      case K_SGAL3: for (int i = 0; i < 3; ++i) { M(i, 4) = c[i]; M(i, 3) = c[7 + i]; } M(3, 4) = c[10]; break;
      case K_RN: for (int i = 0; i < dof; ++i) M(i, dof) = c[i]; break;
      default: break;
    }
    return M;
  }
  // norm deviation of the rotation data | ||q|| - 1 |
  LD Elem::normDevL(const LD* c) const {
    if (rot == 0) return 0;
    LD s = 0; int k = rot == 2 ? 2 : 4;
    for (int i = 0; i < k; ++i) s += (LD)c[rotCoef + i] * (LD)c[rotCoef + i];
    return std::fabs(std::sqrt(s) - 1);
  }
  // group matrix embedded in the documented "transform()" matrix (tra x tra)
  MatL Elem::toTransform(const MatL& M) const {
    MatL T = MatL::Identity(tra, tra);
    T.topLeftCorner(alg, alg) = M;
    if (kind == K_SO2 || kind == K_SO3) { T.setIdentity(); T.topLeftCorner(alg, alg) = M; }
    return T;
  }
  // act: matrix applied to the point in homogeneous coordinates
  VecL Elem::act(const MatL& M, const VecL& p) const {
    VecL ph = VecL::Zero(alg);
    for (int i = 0; i < dim; ++i) ph(i) = p(i);
    switch (kind) {
      case K_SE2: ph(2) = 1; break;
      case K_SE3: ph(3) = 1; break;
      case K_SE23: ph(3) = 1; ph(4) = 0; break;   // position column
      case K_SGAL3: ph(3) = 0; ph(4) = 1; break;  // position column is the last one
      case K_RN: ph(dof) = 1; break;
      default: break;
    }
    VecL r = M * ph;
    return r.head(dim);
  }
  // structured inverse [[R,B],[0,U]]^-1 = [[R^T, -R^T B U^-1],[0,U^-1]], U unipotent upper triangular
  MatL Elem::inv(const MatL& M) const {
    int r = rot, u = alg - r;
    MatL I = MatL::Identity(alg, alg);
    MatL Ui = MatL::Identity(u, u);
    if (u == 2) Ui(0, 1) = -M(r, r + 1);
    if (kind == K_RN) { for (int i = 0; i < dof; ++i) I(i, dof) = -M(i, dof); return I; }
    if (r > 0) I.topLeftCorner(r, r) = M.topLeftCorner(r, r).transpose();
    if (u > 0) {
      I.bottomRightCorner(u, u) = Ui;
      I.topRightCorner(r, u) = -(M.topLeftCorner(r, r).transpose() * M.topRightCorner(r, u)) * Ui;
    }
    return I;
  }

// ---------------------------------------------------------------------------------------------
// matrix exponential: scaling & squaring on the rotation magnitude only + Taylor series
// ---------------------------------------------------------------------------------------------
MatL expm(const MatL& A, LD theta) {
  int s = 0;
  if (theta > 0.25L) s = (int)std::ceil(std::log2((double)(theta / 0.25L)));
  if (s > 60) s = 60;
  MatL B = A / std::ldexp((LD)1, s);
  int n = (int)A.rows();
  MatL term = MatL::Identity(n, n), sum = MatL::Identity(n, n);
  for (int k = 1; k <= 80; ++k) {
    term = (term * B) / (LD)k;
    sum += term;
    LD tn = term.cwiseAbs().maxCoeff(), sn = sum.cwiseAbs().maxCoeff();
    if (tn == 0 || tn < 1e-24L * sn) break;
  }
  for (int i = 0; i < s; ++i) sum = sum * sum;
  return sum;
}
MatL expm(const Elem& e, const VecL& t) { return expm(e.hat(t), e.theta(t)); }

// rotation matrix -> rotation vector (principal, angle in [0,pi]); Shepperd's quaternion extraction
void rotLog3(const MatL& R, LD out[3]) {
  LD tr = R(0, 0) + R(1, 1) + R(2, 2);
  LD q[4];  // x y z w
  LD d0 = R(0, 0), d1 = R(1, 1), d2 = R(2, 2);
  if (tr >= d0 && tr >= d1 && tr >= d2) {
    LD w = std::sqrt(1 + tr) / 2; q[3] = w;
    q[0] = (R(2, 1) - R(1, 2)) / (4 * w); q[1] = (R(0, 2) - R(2, 0)) / (4 * w); q[2] = (R(1, 0) - R(0, 1)) / (4 * w);
  } else if (d0 >= d1 && d0 >= d2) {
    LD x = std::sqrt(1 + d0 - d1 - d2) / 2; q[0] = x;
    q[3] = (R(2, 1) - R(1, 2)) / (4 * x); q[1] = (R(0, 1) + R(1, 0)) / (4 * x); q[2] = (R(0, 2) + R(2, 0)) / (4 * x);
  } else if (d1 >= d2) {
    LD y = std::sqrt(1 - d0 + d1 - d2) / 2; q[1] = y;
    q[3] = (R(0, 2) - R(2, 0)) / (4 * y); q[0] = (R(0, 1) + R(1, 0)) / (4 * y); q[2] = (R(1, 2) + R(2, 1)) / (4 * y);
  } else {
    LD z = std::sqrt(1 - d0 - d1 + d2) / 2; q[2] = z;
    q[3] = (R(1, 0) - R(0, 1)) / (4 * z); q[0] = (R(0, 2) + R(2, 0)) / (4 * z); q[1] = (R(1, 2) + R(2, 1)) / (4 * z);
  }
  if (q[3] < 0) for (int i = 0; i < 4; ++i) q[i] = -q[i];
  LD n = std::sqrt(q[0] * q[0] + q[1] * q[1] + q[2] * q[2]);
  LD k;
  if (n < 1e-8L) { LD r = n / q[3]; k = 2 / q[3] * (1 - r * r / 3 + r * r * r * r / 5); }
  else k = 2 * std::atan2(n, q[3]) / n;
  for (int i = 0; i < 3; ++i) out[i] = k * q[i];
}

// model logarithm of one element block
VecL logm(const Elem& e, const MatL& M) {
  VecL t = VecL::Zero(e.dof);
  if (e.rot == 2) t(e.rotIdx[0]) = std::atan2(M(1, 0), M(0, 0));
  else if (e.rot == 3) { LD r[3]; rotLog3(M.topLeftCorner(3, 3), r); for (int i = 0; i < 3; ++i) t(e.rotIdx[i]) = r[i]; }
  if (e.timeIdx >= 0) t(e.timeIdx) = M(3, 4);
  int nl = (int)e.linIdx.size();
  if (nl == 0) return t;
  if (e.kind == K_RN) { for (int i = 0; i < e.dof; ++i) t(i) = M(i, e.dof); return t; }
  // exp is affine in the linear slots for fixed rotation/time: solve for them
  MatL M0 = expm(e, t);
  int r = e.rot, u = e.alg - r;
  MatL Asys(r * u, nl); VecL rhs(r * u);
  {
    MatL D = M.topRightCorner(r, u) - M0.topRightCorner(r, u);
    for (int c = 0; c < u; ++c) for (int i = 0; i < r; ++i) rhs(c * r + i) = D(i, c);
  }
  for (int k = 0; k < nl; ++k) {
    VecL tk = t; tk(e.linIdx[k]) = 1;
    MatL Mk = expm(e, tk);
    MatL D = Mk.topRightCorner(r, u) - M0.topRightCorner(r, u);
    for (int c = 0; c < u; ++c) for (int i = 0; i < r; ++i) Asys(c * r + i, k) = D(i, c);
  }
  Eigen::Matrix<LD, -1, -1> A2 = Asys; Eigen::Matrix<LD, -1, 1> b2 = rhs;
  Eigen::Matrix<LD, -1, 1> x = A2.colPivHouseholderQr().solve(b2);
  for (int k = 0; k < nl; ++k) t(e.linIdx[k]) = x(k);
  return t;
}

// adjoint representation from the definition
MatL Adj(const Elem& e, const MatL& M) {
  MatL Mi = e.inv(M), A(e.dof, e.dof);
  for (int k = 0; k < e.dof; ++k) A.col(k) = e.vee(M * e.G[k] * Mi);
  return A;
}
MatL ad(const Elem& e, const VecL& t) {
  MatL H = e.hat(t), A(e.dof, e.dof);
  for (int k = 0; k < e.dof; ++k) A.col(k) = e.vee(H * e.G[k] - e.G[k] * H);
  return A;
}
// right Jacobian of exp: Jr(t) = sum_k (-ad_t)^k/(k+1)! = top-right block of expm([[-ad,I],[0,0]])
MatL Jr(const Elem& e, const VecL& t) {
  int n = e.dof;
  MatL B = MatL::Zero(2 * n, 2 * n);
  B.topLeftCorner(n, n) = -ad(e, t);
  B.topRightCorner(n, n) = MatL::Identity(n, n);
  MatL X = expm(B, e.theta(t));
  return X.topRightCorner(n, n);
}
MatL Jl(const Elem& e, const VecL& t) { VecL m = -t; return Jr(e, m); }
MatL invGeneral(const MatL& A) {
  Eigen::Matrix<LD, -1, -1> B = A; Eigen::FullPivLU<Eigen::Matrix<LD, -1, -1>> lu(B); lu.setThreshold(0); Eigen::Matrix<LD, -1, -1> I = lu.inverse(); MatL r = I; return r;
}

// ---------------------------------------------------------------------------------------------
// Group descriptor = sequence of elementary blocks (a plain group has one block, a Bundle several)
// ---------------------------------------------------------------------------------------------
void Group::add(const Elem& e) {
  dofOff.push_back(dof); repOff.push_back(rep); dimOff.push_back(dim); algOff.push_back(alg); traOff.push_back(tra);
  dof += e.dof; rep += e.rep; dim += e.dim; alg += e.alg; tra += e.tra; el.push_back(e);
}

GM toGML(const Group& g, const LD* coeffs) {
  GM m;
  for (int b = 0; b < g.nb(); ++b) m.push_back(g.el[b].toMatL(coeffs + g.repOff[b]));
  return m;
}
VecL seg(const VecL& v, int off, int n) { VecL r = v.segment(off, n); return r; }
GM gexp(const Group& g, const VecL& t) {
  GM m; for (int b = 0; b < g.nb(); ++b) m.push_back(expm(g.el[b], seg(t, g.dofOff[b], g.el[b].dof))); return m;
}
VecL glog(const Group& g, const GM& m) {
  VecL t(g.dof); for (int b = 0; b < g.nb(); ++b) t.segment(g.dofOff[b], g.el[b].dof) = logm(g.el[b], m[b]); return t;
}
GM gmul(const GM& a, const GM& b) { GM m; for (size_t i = 0; i < a.size(); ++i) m.push_back(a[i] * b[i]); return m; }
GM ginv(const Group& g, const GM& a) { GM m; for (int b = 0; b < g.nb(); ++b) m.push_back(g.el[b].inv(a[b])); return m; }
GM gid(const Group& g) { GM m; for (int b = 0; b < g.nb(); ++b) m.push_back(MatL::Identity(g.el[b].alg, g.el[b].alg)); return m; }
VecL gact(const Group& g, const GM& a, const VecL& p) {
  VecL r(g.dim); for (int b = 0; b < g.nb(); ++b) r.segment(g.dimOff[b], g.el[b].dim) = g.el[b].act(a[b], seg(p, g.dimOff[b], g.el[b].dim)); return r;
}
GM gplus(const Group& g, const GM& a, const VecL& t) { return gmul(a, gexp(g, t)); }         // a (+) t
VecL gminus(const Group& g, const GM& a, const GM& b) { return glog(g, gmul(ginv(g, b), a)); }  // a (-) b = log(b^-1 a)
// max-abs difference between two model elements, and the scale (max(1, max-abs entry))
LD gdiff(const GM& a, const GM& b) { LD d = 0; for (size_t i = 0; i < a.size(); ++i) { LD x = (a[i] - b[i]).cwiseAbs().maxCoeff(); if (!(x <= d)) d = x; } return d; }
LD gscale(const GM& a) { LD s = 1; for (auto& m : a) { LD x = m.cwiseAbs().maxCoeff(); if (x > s) s = x; } return s; }
bool gfinite(const GM& a) { for (auto& m : a) if (!m.allFinite()) return false; return true; }
// rotation angle (max over blocks) of a tangent / of an element
LD gtheta(const Group& g, const VecL& t) { LD m = 0; for (int b = 0; b < g.nb(); ++b) m = std::max(m, g.el[b].theta(seg(t, g.dofOff[b], g.el[b].dof))); return m; }
// block-diagonal DoF x DoF matrices
MatL gblock(const Group& g, const std::function<MatL(int)>& f) {
  Eigen::Matrix<LD, -1, -1> big = Eigen::Matrix<LD, -1, -1>::Zero(g.dof, g.dof);
  for (int b = 0; b < g.nb(); ++b) { MatL x = f(b); big.block(g.dofOff[b], g.dofOff[b], g.el[b].dof, g.el[b].dof) = x; }
  MatL r = big; return r;
}
BigL gJr(const Group& g, const VecL& t) {
  BigL J = BigL::Zero(g.dof, g.dof);
  for (int b = 0; b < g.nb(); ++b) J.block(g.dofOff[b], g.dofOff[b], g.el[b].dof, g.el[b].dof) = Jr(g.el[b], seg(t, g.dofOff[b], g.el[b].dof));
  return J;
}
BigL gAdj(const Group& g, const GM& a) {
  BigL J = BigL::Zero(g.dof, g.dof);
  for (int b = 0; b < g.nb(); ++b) J.block(g.dofOff[b], g.dofOff[b], g.el[b].dof, g.el[b].dof) = Adj(g.el[b], a[b]);
  return J;
}
BigL gad(const Group& g, const VecL& t) {
  BigL J = BigL::Zero(g.dof, g.dof);
  for (int b = 0; b < g.nb(); ++b) J.block(g.dofOff[b], g.dofOff[b], g.el[b].dof, g.el[b].dof) = ad(g.el[b], seg(t, g.dofOff[b], g.el[b].dof));
  return J;
}
BigL ghat(const Group& g, const VecL& t) {
  BigL H = BigL::Zero(g.alg, g.alg);
  for (int b = 0; b < g.nb(); ++b) H.block(g.algOff[b], g.algOff[b], g.el[b].alg, g.el[b].alg) = g.el[b].hat(seg(t, g.dofOff[b], g.el[b].dof));
  return H;
}
BigL gtransform(const Group& g, const GM& a) {
  BigL T = BigL::Zero(g.tra, g.tra);
  for (int b = 0; b < g.nb(); ++b) T.block(g.traOff[b], g.traOff[b], g.el[b].tra, g.el[b].tra) = g.el[b].toTransform(a[b]);
  return T;
}
BigL ggen(const Group& g, int i) {  // i-th generator of the product group
  VecL t = VecL::Zero(g.dof); t(i) = 1; return ghat(g, t);
}

// ---------------------------------------------------------------------------------------------
// Jacobians by 4th-order central differences on the model.
// f maps a perturbation d (applied by the caller to whichever argument is being differentiated) to
// the "difference to the base result" in the output chart: J[:,k] = d/ds f(s e_k) at s = 0.
// ---------------------------------------------------------------------------------------------
BigL fdJac(int nin, int nout, LD h, const std::function<VecL(const VecL&)>& f) {
  BigL J(nout, nin);
  for (int k = 0; k < nin; ++k) {
    VecL d = VecL::Zero(nin);
    d(k) = h; VecL p1 = f(d); d(k) = -h; VecL m1 = f(d);
    d(k) = 2 * h; VecL p2 = f(d); d(k) = -2 * h; VecL m2 = f(d);
    VecL col = (-(p2 - m2) + 8 * (p1 - m1)) / (12 * h);
    J.col(k) = col;
  }
  return J;
}

// self-checks of the model (no manif involved); returns empty string if fine
std::string selfCheck(const Elem& e, unsigned seed) {
  srand(seed);
  auto rnd = []() { return (LD)rand() / RAND_MAX * 2 - 1; };
  for (int it = 0; it < 40; ++it) {
    VecL t(e.dof);
    for (int i = 0; i < e.dof; ++i) t(i) = rnd() * (it % 4 == 0 ? 1e-6L : 1.5L);
    if (it % 5 == 1) for (int i : e.linIdx) t(i) *= 1e4L;
    if (e.theta(t) > 3.1L) continue;
    MatL M = expm(e, t);
    VecL t2 = logm(e, M);
    LD sc = 1 + t.cwiseAbs().maxCoeff();
    if ((t - t2).cwiseAbs().maxCoeff() > 1e-15L * sc) return e.name + ": logm(expm(t)) != t";
    if ((M * e.inv(M) - MatL::Identity(e.alg, e.alg)).cwiseAbs().maxCoeff() > 1e-15L * (1 + M.cwiseAbs().maxCoeff())) return e.name + ": inv";
    if ((e.vee(e.hat(t)) - t).cwiseAbs().maxCoeff() != 0) return e.name + ": vee(hat)";
    // Jr against its power series for small t
    if (it % 4 == 0) {
      MatL a = ad(e, t), S = MatL::Identity(e.dof, e.dof), term = MatL::Identity(e.dof, e.dof);
      for (int k = 1; k < 12; ++k) { term = term * (-a) / (LD)(k + 1); S += term; }
      if ((S - Jr(e, t)).cwiseAbs().maxCoeff() > 1e-16L) return e.name + ": Jr series";
    }
    // Jr definition: exp(t + d) ~ exp(t) exp(Jr d)
    VecL d(e.dof); for (int i = 0; i < e.dof; ++i) d(i) = rnd() * 1e-7L;
    MatL lhs = expm(e, t + d), rhs = M * expm(e, Jr(e, t) * d);
    if ((lhs - rhs).cwiseAbs().maxCoeff() > 1e-11L * (1 + M.cwiseAbs().maxCoeff())) return e.name + ": Jr definition";
    // Adj(exp t) = expm(ad t)
    MatL A1 = Adj(e, M), A2 = expm(ad(e, t), e.theta(t));
    if ((A1 - A2).cwiseAbs().maxCoeff() > 1e-14L * (1 + A1.cwiseAbs().maxCoeff())) return e.name + ": Adj(exp)=exp(ad)";
  }
  return "";
}

// threshold 0: Eigen's default rank threshold (eps * size * largest pivot) silently drops pivots of matrices whose entries span 18 orders of
// magnitude (SGal3 Jacobians with |time*velocity| ~ 1e9) and would return a pseudo-inverse
BigL bigInverse(const BigL& A) { Eigen::FullPivLU<BigL> lu(A); lu.setThreshold(0); BigL I = lu.inverse(); return I; }
}  // namespace ref
