// C13 monitor: construction, accessors and conversions are consistent and validated.
// Built twice: with assertions (rotation data off the unit sphere must be rejected) and with -DNDEBUG (nothing is rejected).
#define MON_NAME "c13_construct"
#include <manif/manif.h>
#include "model.h"
#include "prng.h"
#include "eventlog.h"
#include <complex>

#ifndef MS
#define MS double
#endif
typedef MS S;
using namespace manif;
using ref::LD; using ref::MatL; using ref::VecL;
static const double PI = 3.14159265358979323846;
static const double U = std::numeric_limits<S>::epsilon(), EPS = 100 * U;
#ifdef NDEBUG
static const bool ASSERTS = false;
#else
static const bool ASSERTS = true;
#endif
static std::string SN() { return sizeof(S) == 4 ? "float" : "double"; }
static std::string BN() { return ASSERTS ? "assert" : "ndebug"; }

static const Args* gA; static long long gI;
static void viol(const std::string& key, double mag, J j) { LOG.viol(key + "/" + SN(), mag, j.u("seed", gA->seed).i("idx", gI).s("monitor", LOG.monitor).s("build", BN()).str()); }
static void cell(const std::string& key, double e) { LOG.cell(key + "/" + SN() + "/" + BN(), e); }

// model rotations
static MatL Rz(LD a) { MatL R = MatL::Identity(3, 3); R(0, 0) = std::cos(a); R(0, 1) = -std::sin(a); R(1, 0) = std::sin(a); R(1, 1) = std::cos(a); return R; }
static MatL Ry(LD a) { MatL R = MatL::Identity(3, 3); R(0, 0) = std::cos(a); R(0, 2) = std::sin(a); R(2, 0) = -std::sin(a); R(2, 2) = std::cos(a); return R; }
static MatL Rx(LD a) { MatL R = MatL::Identity(3, 3); R(1, 1) = std::cos(a); R(1, 2) = -std::sin(a); R(2, 1) = std::sin(a); R(2, 2) = std::cos(a); return R; }
static MatL rodrigues(LD ang, const LD ax[3]) { static const ref::Elem e = ref::Elem::make(ref::K_SO3); VecL t(3); for (int i = 0; i < 3; ++i) t(i) = ang * ax[i]; return ref::expm(e, t); }
template <class M> static MatL toL(const M& m) { MatL r(m.rows(), m.cols()); for (int i = 0; i < m.rows(); ++i) for (int j = 0; j < m.cols(); ++j) r(i, j) = m(i, j); return r; }
static double maxd(const MatL& a, const MatL& b) { return (double)(a - b).cwiseAbs().maxCoeff(); }
template <class M> static void checkRotation(const std::string& who, const M& Rm, const MatL* want, J j) {
  MatL R = toL(Rm); int n = (int)R.rows();
  double orth = (double)(R.transpose() * R - MatL::Identity(n, n)).cwiseAbs().maxCoeff();
  LD det = n == 2 ? R(0, 0) * R(1, 1) - R(0, 1) * R(1, 0) : R(0, 0) * (R(1, 1) * R(2, 2) - R(1, 2) * R(2, 1)) - R(0, 1) * (R(1, 0) * R(2, 2) - R(1, 2) * R(2, 0)) + R(0, 2) * (R(1, 0) * R(2, 1) - R(1, 1) * R(2, 0));
  double tol = 3 * EPS;   // rotation data are unit only within the acceptance threshold eps
  cell("rotation-orthonormal/" + who, orth);
  if (!(orth <= tol) || !(std::fabs((double)det - 1) <= tol)) viol("rotation-not-orthonormal/" + who, orth, j.d("orth", orth).d("det", det));
  if (want) { double e = maxd(R, *want); cell("rotation-vs-model/" + who, e); LOG.maxi("rotation-err/" + who + "/" + SN(), e); if (!(e <= 64 * U)) viol("rotation-differs-from-model/" + who, e, j.d("err", e)); }
}
static double sampleAngle(Prng& r) {
  int c = r.below(8);
  if (c == 0) return 0;
  if (c == 1) return r.uni(-PI, PI);
  if (c == 2) return r.uni(-200 * PI, 200 * PI);                       // many periods
  if (c == 3) { static const double d[] = {0, 1e-9, -1e-9, 1e-6, -1e-6}; return (r.below(9) - 4) * PI / 2 + d[r.below(5)]; }  // k*pi/2 +- tiny
  if (c == 4) { double a = (r.below(5) - 2) * PI / 2; return std::nextafter(a, r.coin() ? 10.0 : -10.0); }
  if (c == 5) return r.sign() * r.logu(1e-300, 1e-3);
  if (c == 6) return r.sign() * (PI - r.logu(1e-15, 1e-3));
  return r.uni(-7, 7);
}
static void randUnitQuat(Prng& r, S q[4]) {   // independently normalised, both hemispheres
  LD v[4], n = 0; for (int i = 0; i < 4; ++i) { v[i] = r.gauss(); n += v[i] * v[i]; } n = std::sqrt(n);
  if (r.coin(0.2)) { LD th = r.logu(1e-12, 1e-3); v[0] = th; v[1] = v[2] = 0; v[3] = r.sign(); n = std::sqrt(v[0] * v[0] + 1); }
  for (int i = 0; i < 4; ++i) q[i] = (S)(v[i] / n);
}
template <class V> static bool exactEq(const V& a, const V& b) { for (int i = 0; i < a.size(); ++i) if (!(a(i) == b(i))) return false; return true; }
// equality as transformations (q and -q allowed): compare rotation matrices and the remaining coefficients
template <class G> static double sameTransform(const G& a, const G& b) { return (double)(toL(a.transform()) - toL(b.transform())).cwiseAbs().maxCoeff(); }

// rot = list of (offset, length) of the unit-norm rotation data inside the coefficient vector
template <class G> static void castChecks(const std::string& who, const G& X, std::initializer_list<std::pair<int, int>> rot) {
  auto f = X.template cast<float>(); auto d = X.template cast<double>();
  double scale = 1; for (int i = 0; i < X.coeffs().size(); ++i) scale = std::max(scale, std::fabs((double)X.coeffs()(i)));
  double ef = (double)(toL(f.transform()) - toL(X.transform())).cwiseAbs().maxCoeff() / scale, ed = (double)(toL(d.transform()) - toL(X.transform())).cwiseAbs().maxCoeff() / scale;
  cell("cast/" + who, std::max(ef, ed));
  if (!(ef <= 8 * 1.2e-7)) viol("cast<float>-differs/" + who, ef, J().vec("X", X.coeffs()));
  if (!(ed <= 8 * U)) viol("cast<double>-differs/" + who, ed, J().vec("X", X.coeffs()));
  // validity in the target type, by the library's own acceptance threshold of that type (recomputed in long double)
  for (auto& sl : rot) {
    LD nf = 0, nd = 0; for (int i = 0; i < sl.second; ++i) { nf += (LD)f.coeffs()(sl.first + i) * (LD)f.coeffs()(sl.first + i); nd += (LD)d.coeffs()(sl.first + i) * (LD)d.coeffs()(sl.first + i); }
    double df = std::fabs((double)(std::sqrt(nf) - 1)), dd = std::fabs((double)(std::sqrt(nd) - 1));
    LOG.maxi("cast-normdev<float>/" + who, df); LOG.maxi("cast-normdev<double>/" + who, dd);
    if (!(df < 100 * 1.1920929e-7)) viol("cast<float>-not-normalized/" + who, df, J().vec("X", X.coeffs()).vec("cast", f.coeffs()));
    if (!(dd < 100 * 2.220446e-16)) viol("cast<double>-not-normalized/" + who, dd, J().vec("X", X.coeffs()).vec("cast", d.coeffs()));
  }
  // re-constructing from the cast coefficients must be accepted (assertion build)
  try { typename decltype(f)::LieGroup f2(f.coeffs()); typename decltype(d)::LieGroup d2(d.coeffs()); (void)f2; (void)d2; }
  catch (const std::exception& e) { viol("cast-result-rejected-by-validation/" + who, 1, J().vec("X", X.coeffs()).s("what", e.what())); }
}

static void caseSO2(Prng& r) {
  double a = sampleAngle(r); S th = (S)a;
  SO2<S> X(th); J j; j.d("theta", th);
  LD c = std::cos((LD)th), s = std::sin((LD)th);
  double e = std::max(std::fabs((double)(X.real() - c)), std::fabs((double)(X.imag() - s)));
  cell("SO2(theta)/accessors", e);
  if (!(e <= 4 * U * std::max(1.0, std::fabs((double)th)))) viol("accessor-differs/SO2(theta)", e, j);
  LD da = std::remainder((LD)X.angle() - (LD)th, 2 * ref::PI_L);
  if (!(std::fabs((double)da) <= 8 * U * std::max(1.0, std::fabs((double)th)))) viol("accessor-differs/SO2::angle", (double)da, j);
  MatL want(2, 2); want << c, -s, s, c;
  checkRotation("SO2", X.rotation(), &want, j);
  SO2<S> Y(X.real(), X.imag()); if (!exactEq(Y.coeffs(), X.coeffs())) viol("copying-constructor-not-exact/SO2(real,imag)", 1, j);
  SO2<S> Z(X.angle()); if (!(sameTransform(Z, X) <= 16 * U)) viol("accessors-fed-back/SO2", sameTransform(Z, X), j);
  castChecks("SO2", X, {{0, 2}});
}
static void caseSE2(Prng& r) {
  double a = sampleAngle(r); S th = (S)a, x = (S)(r.gauss() * std::pow(10.0, r.below(7) - 1)), y = (S)(r.gauss() * std::pow(10.0, r.below(7) - 1));
  SE2<S> X(x, y, th); J j; j.d("x", x).d("y", y).d("theta", th);
  LD c = std::cos((LD)th), s = std::sin((LD)th);
  bool ex = X.x() == x && X.y() == y && X.translation()(0) == x && X.translation()(1) == y;
  double e = std::max(std::fabs((double)(X.real() - c)), std::fabs((double)(X.imag() - s)));
  cell("SE2(x,y,theta)/accessors", e);
  if (!ex || !(e <= 4 * U * std::max(1.0, std::fabs((double)th)))) viol("accessor-differs/SE2(x,y,theta)", e, j);
  MatL want(2, 2); want << c, -s, s, c; checkRotation("SE2", X.rotation(), &want, j);
  SE2<S> A(x, y, X.real(), X.imag()), B(typename SE2<S>::Translation(x, y), std::complex<S>(X.real(), X.imag())), C(x, y, std::complex<S>(X.real(), X.imag()));
  if (!exactEq(A.coeffs(), X.coeffs()) || !exactEq(B.coeffs(), X.coeffs()) || !exactEq(C.coeffs(), X.coeffs())) viol("copying-constructor-not-exact/SE2", 1, j);
  Eigen::Transform<S, 2, Eigen::Isometry> iso = X.isometry(); SE2<S> D(iso);
  double ed = sameTransform(D, X) / std::max(1.0, std::max(std::fabs((double)x), std::fabs((double)y)));
  cell("SE2(isometry)", ed); if (!(ed <= 16 * U)) viol("accessors-fed-back/SE2(isometry)", ed, j);
  MatL T = toL(X.transform()); if (!(T(0, 2) == x && T(1, 2) == y && T(2, 2) == 1 && T(2, 0) == 0 && T(2, 1) == 0 && maxd(T.topLeftCorner(2, 2), toL(X.rotation())) == 0)) viol("transform-inconsistent/SE2", 1, j);
  castChecks("SE2", X, {{2, 2}});
}
template <class G> static void quatAccessors(const std::string& who, const G& X, const S q[4], J j) {
  auto qq = X.quat();
  bool ex = qq.x() == q[0] && qq.y() == q[1] && qq.z() == q[2] && qq.w() == q[3];
  cell(who + "/quat-exact", ex ? 0 : 1);
  if (!ex) viol("accessor-differs/" + who + "::quat", 1, j);
  static const ref::Elem e = ref::Elem::make(ref::K_SO3);
  LD c[4] = {q[0], q[1], q[2], q[3]}; MatL want = e.toMatL(c);
  checkRotation(who, X.rotation(), &want, j);
}
static void caseSO3(Prng& r) {
  S q[4]; randUnitQuat(r, q); J j; j.vec("q", std::vector<S>(q, q + 4));
  Eigen::Quaternion<S> Q(q[3], q[0], q[1], q[2]);
  SO3<S> X(Q), Y(q[0], q[1], q[2], q[3]);
  if (!exactEq(X.coeffs(), Y.coeffs()) || !(X.x() == q[0] && X.y() == q[1] && X.z() == q[2] && X.w() == q[3])) viol("copying-constructor-not-exact/SO3", 1, j);
  quatAccessors("SO3", X, q, j);
  SO3<S> Z(X.quat()); if (!exactEq(Z.coeffs(), X.coeffs())) viol("accessors-fed-back/SO3(quat)", 1, j);
  SO3<S> W(Eigen::Quaternion<S>(X.rotation())); double e = (double)maxd(toL(W.rotation()), toL(X.rotation())); cell("SO3(rotation())", e); if (!(e <= 64 * U)) viol("accessors-fed-back/SO3(rotation)", e, j);
  // angle-axis and roll-pitch-yaw against model rotations
  double ang = sampleAngle(r); LD ax[3]; { double n = 0, v[3]; do { n = 0; for (int i = 0; i < 3; ++i) { v[i] = r.gauss(); n += v[i] * v[i]; } } while (n < 1e-3); n = std::sqrt(n); for (int i = 0; i < 3; ++i) ax[i] = (LD)(S)(v[i] / n); LD m = std::sqrt(ax[0] * ax[0] + ax[1] * ax[1] + ax[2] * ax[2]); for (int i = 0; i < 3; ++i) ax[i] /= m; }
  Eigen::Matrix<S, 3, 1> axs((S)ax[0], (S)ax[1], (S)ax[2]); axs.normalize();
  SO3<S> A(Eigen::AngleAxis<S>((S)ang, axs)); LD axn[3] = {axs(0), axs(1), axs(2)};
  MatL wa = rodrigues((LD)(S)ang, axn); double ea = maxd(toL(A.rotation()), wa);
  cell("SO3(angle-axis)", ea); LOG.maxi("angle-axis-err/" + SN(), ea);
  if (!(ea <= 16 * U * std::max(1.0, std::fabs(ang)))) viol("rotation-differs-from-model/SO3(angle-axis)", ea, J().d("angle", ang).vecd("axis", std::vector<double>{(double)axs(0), (double)axs(1), (double)axs(2)}));
  S ro = (S)sampleAngle(r), pi = (S)sampleAngle(r), ya = (S)sampleAngle(r);
  if (r.coin(0.3)) pi = (S)(r.sign() * (PI / 2 + (r.coin() ? 0 : r.sign() * r.logu(1e-12, 1e-3))));   // gimbal configurations
  SO3<S> E(ro, pi, ya); MatL we = Rz((LD)ya) * Ry((LD)pi) * Rx((LD)ro);
  double ee = maxd(toL(E.rotation()), we), am = std::max({1.0, std::fabs((double)ro), std::fabs((double)pi), std::fabs((double)ya)});
  cell("SO3(roll,pitch,yaw)", ee); LOG.maxi("rpy-err/" + SN(), ee);
  if (!(ee <= 32 * U * am)) viol("rotation-differs-from-model/SO3(roll,pitch,yaw)", ee, J().d("roll", ro).d("pitch", pi).d("yaw", ya));
  checkRotation("SO3(rpy)", E.rotation(), nullptr, J().d("roll", ro).d("pitch", pi).d("yaw", ya));
  // setter
  SO3<S> V2 = SO3<S>::Identity(); V2.quat(Q); if (!exactEq(V2.coeffs(), X.coeffs())) viol("setter-differs/SO3::quat", 1, j);
  castChecks("SO3", X, {{0, 4}});
}
template <class V3> static V3 randVec(Prng& r) { V3 v; double m = std::pow(10.0, r.below(8) - 1); for (int i = 0; i < 3; ++i) v(i) = (S)(r.gauss() * m); return v; }
static void caseSE3family(Prng& r) {
  typedef Eigen::Matrix<S, 3, 1> V3;
  S q[4]; randUnitQuat(r, q); Eigen::Quaternion<S> Q(q[3], q[0], q[1], q[2]);
  V3 t = randVec<V3>(r), v = randVec<V3>(r); S tm = (S)(r.gauss() * 10);
  J j; j.vec("q", std::vector<S>(q, q + 4)).vec("t", t).vec("v", v).d("time", tm);
  SO3<S> R(Q);
  {
    SE3<S> X(t, Q), Y(t, R); quatAccessors("SE3", X, q, j);
    bool ex = exactEq(X.coeffs(), Y.coeffs()) && exactEq(V3(X.translation()), t) && X.x() == t(0) && X.y() == t(1) && X.z() == t(2);
    cell("SE3(t,q)", ex ? 0 : 1); if (!ex) viol("accessor-differs/SE3(t,q)", 1, j);
    Eigen::Transform<S, 3, Eigen::Isometry> iso = X.isometry(); SE3<S> D(iso);
    double sc = std::max(1.0, (double)t.cwiseAbs().maxCoeff()), e = sameTransform(D, X) / sc; cell("SE3(isometry)", e); if (!(e <= 64 * U)) viol("accessors-fed-back/SE3(isometry)", e, j);
    MatL T = toL(X.transform()); bool okT = maxd(T.topLeftCorner(3, 3), toL(X.rotation())) == 0 && T(0, 3) == t(0) && T(1, 3) == t(1) && T(2, 3) == t(2) && T(3, 3) == 1 && T(3, 0) == 0 && T(3, 1) == 0 && T(3, 2) == 0;
    if (!okT) viol("transform-inconsistent/SE3", 1, j);
    S ro = (S)sampleAngle(r), pi = (S)sampleAngle(r), ya = (S)sampleAngle(r);
    SE3<S> E(t(0), t(1), t(2), ro, pi, ya); SO3<S> Er(ro, pi, ya);
    if (!exactEq(typename SO3<S>::DataType(E.quat().coeffs()), Er.coeffs()) || !exactEq(V3(E.translation()), t)) viol("constructor-inconsistent/SE3(x,y,z,r,p,y)", 1, j);
    SE3<S> Z = SE3<S>::Identity(); Z.translation(t); Z.quat(Q); if (!exactEq(Z.coeffs(), X.coeffs())) viol("setter-differs/SE3", 1, j);
    Z = SE3<S>::Identity(); Z.quat(R); if (!exactEq(typename SO3<S>::DataType(Z.quat().coeffs()), R.coeffs())) viol("setter-differs/SE3::quat(SO3)", 1, j);
    castChecks("SE3", X, {{3, 4}});
  }
  {
    SE_2_3<S> X(t, Q, v), Y(t, R, v); quatAccessors("SE_2_3", X, q, j);
    bool ex = exactEq(X.coeffs(), Y.coeffs()) && exactEq(V3(X.translation()), t) && exactEq(V3(X.linearVelocity()), v) && X.vx() == v(0) && X.vy() == v(1) && X.vz() == v(2) && X.x() == t(0);
    cell("SE_2_3(t,q,v)", ex ? 0 : 1); if (!ex) viol("accessor-differs/SE_2_3(t,q,v)", 1, j);
    Eigen::Transform<S, 3, Eigen::Isometry> iso = Eigen::Transform<S, 3, Eigen::Isometry>::Identity(); iso.linear() = X.rotation(); iso.translation() = t; SE_2_3<S> D(iso, v);
    double sc = std::max({1.0, (double)t.cwiseAbs().maxCoeff(), (double)v.cwiseAbs().maxCoeff()}), e = sameTransform(D, X) / sc; cell("SE_2_3(isometry,v)", e); if (!(e <= 64 * U)) viol("accessors-fed-back/SE_2_3(isometry,v)", e, j);
    MatL T = toL(X.transform()); bool okT = T.rows() == 5 && maxd(T.topLeftCorner(3, 3), toL(X.rotation())) == 0 && T(0, 3) == t(0) && T(2, 3) == t(2) && T(0, 4) == v(0) && T(2, 4) == v(2) && T(3, 3) == 1 && T(4, 4) == 1 && T(3, 4) == 0 && T(4, 3) == 0;
    if (!okT) viol("transform-inconsistent/SE_2_3", 1, j);
    castChecks("SE_2_3", X, {{3, 4}});
  }
  {
    SGal3<S> X(t, Q, v, tm), Y(t, R, v, tm); quatAccessors("SGal3", X, q, j);
    bool ex = exactEq(X.coeffs(), Y.coeffs()) && exactEq(V3(X.translation()), t) && exactEq(V3(X.linearVelocity()), v) && X.t() == tm && X.vx() == v(0) && X.z() == t(2);
    cell("SGal3(t,q,v,time)", ex ? 0 : 1); if (!ex) viol("accessor-differs/SGal3(t,q,v,time)", 1, j);
    MatL T = toL(X.transform()); bool okT = T.rows() == 5 && maxd(T.topLeftCorner(3, 3), toL(X.rotation())) == 0 && T(0, 4) == t(0) && T(2, 4) == t(2) && T(0, 3) == v(0) && T(2, 3) == v(2) && T(3, 4) == tm && T(3, 3) == 1 && T(4, 4) == 1 && T(4, 3) == 0;
    if (!okT) viol("transform-inconsistent/SGal3", 1, j);
    S ro = (S)sampleAngle(r), pi = (S)sampleAngle(r), ya = (S)sampleAngle(r);
    SGal3<S> E(t(0), t(1), t(2), ro, pi, ya, v(0), v(1), v(2), tm); SO3<S> Er(ro, pi, ya);
    if (!(sameTransform(E, SGal3<S>(t, Er, v, tm)) <= 64 * U * std::max(1.0, (double)t.cwiseAbs().maxCoeff()))) viol("constructor-inconsistent/SGal3(x..t)", 1, j);
    castChecks("SGal3", X, {{3, 4}});
  }
  {
    // every scalar / block accessor of the three 3D pose groups, on the owning object and through const and mutable views; isometry();
    // the angle-axis, roll-pitch-yaw and isometry constructors must agree with the quaternion constructor of the same rotation
    S ang = (S)sampleAngle(r); V3 ax = randVec<V3>(r); if (!(ax.norm() > 0)) ax = V3::UnitX(); ax.normalize();
    Eigen::AngleAxis<S> AA(ang, ax); Eigen::Quaternion<S> QA(AA); SO3<S> RA(QA);
    S ro = (S)sampleAngle(r), pi = (S)sampleAngle(r), ya = (S)sampleAngle(r); SO3<S> Er(ro, pi, ya);
    const double sc = std::max({1.0, (double)t.cwiseAbs().maxCoeff(), (double)v.cwiseAbs().maxCoeff()});
    const SE3<S> X3(t, Q); const SE_2_3<S> X5(t, Q, v); const SGal3<S> XG(t, Q, v, tm);
    auto acc3 = [&](const char* n, S x, S y, S z, const V3& tr, const Eigen::Matrix<S, 3, 3>& Rm, bool isoOk, const Eigen::Matrix<S, 3, 3>& Rwant) {
      bool ok = x == t(0) && y == t(1) && z == t(2) && exactEq(tr, t) && exactEq(Rm, Rwant) && isoOk;
      cell(std::string("pose-accessors/") + n, ok ? 0 : 1); if (!ok) viol(std::string("accessor-differs/") + n, 1, j);
    };
    auto vel = [&](const char* n, S vx, S vy, S vz, const V3& lv) { bool ok = vx == v(0) && vy == v(1) && vz == v(2) && exactEq(lv, v); cell(std::string("velocity-accessors/") + n, ok ? 0 : 1); if (!ok) viol(std::string("accessor-differs/") + n, 1, j); };
    const Eigen::Matrix<S, 3, 3> Rw = SO3<S>(Q).rotation();
    auto iso3 = [&](const Eigen::Transform<S, 3, Eigen::Isometry>& iso) { return exactEq(Eigen::Matrix<S, 3, 3>(iso.linear()), Rw) && exactEq(V3(iso.translation()), t) && iso.matrix()(3, 3) == 1 && iso.matrix()(3, 0) == 0 && iso.matrix()(3, 1) == 0 && iso.matrix()(3, 2) == 0; };
    auto iso5 = [&](const Eigen::Matrix<S, 5, 5>& iso, const Eigen::Matrix<S, 5, 5>& tr) { return exactEq(iso, tr); };   // the 5x5 groups document isometry() as the 'double direct isometry' matrix itself
    { const Eigen::Map<const SE3<S>> c(X3.data()); SE3<S> w = X3; Eigen::Map<SE3<S>> m(w.data());
      acc3("SE3", X3.x(), X3.y(), X3.z(), X3.translation(), X3.rotation(), iso3(X3.isometry()), Rw); acc3("Map<const SE3>", c.x(), c.y(), c.z(), c.translation(), c.rotation(), iso3(c.isometry()), Rw); acc3("Map<SE3>", m.x(), m.y(), m.z(), m.translation(), m.rotation(), iso3(m.isometry()), Rw); }
    { const Eigen::Map<const SE_2_3<S>> c(X5.data()); SE_2_3<S> w = X5; Eigen::Map<SE_2_3<S>> m(w.data());
      acc3("SE_2_3", X5.x(), X5.y(), X5.z(), X5.translation(), X5.rotation(), iso5(X5.isometry(), X5.transform()), Rw); acc3("Map<const SE_2_3>", c.x(), c.y(), c.z(), c.translation(), c.rotation(), iso5(c.isometry(), c.transform()), Rw); acc3("Map<SE_2_3>", m.x(), m.y(), m.z(), m.translation(), m.rotation(), iso5(m.isometry(), m.transform()), Rw);
      vel("SE_2_3", X5.vx(), X5.vy(), X5.vz(), X5.linearVelocity()); vel("Map<const SE_2_3>", c.vx(), c.vy(), c.vz(), c.linearVelocity()); vel("Map<SE_2_3>", m.vx(), m.vy(), m.vz(), m.linearVelocity()); }
    { const Eigen::Map<const SGal3<S>> c(XG.data()); SGal3<S> w = XG; Eigen::Map<SGal3<S>> m(w.data());
      acc3("SGal3", XG.x(), XG.y(), XG.z(), XG.translation(), XG.rotation(), iso5(XG.isometry(), XG.transform()), Rw); acc3("Map<const SGal3>", c.x(), c.y(), c.z(), c.translation(), c.rotation(), iso5(c.isometry(), c.transform()), Rw); acc3("Map<SGal3>", m.x(), m.y(), m.z(), m.translation(), m.rotation(), iso5(m.isometry(), m.transform()), Rw);
      vel("SGal3", XG.vx(), XG.vy(), XG.vz(), XG.linearVelocity()); vel("Map<const SGal3>", c.vx(), c.vy(), c.vz(), c.linearVelocity()); vel("Map<SGal3>", m.vx(), m.vy(), m.vz(), m.linearVelocity());
      bool ok = XG.t() == tm && c.t() == tm && m.t() == tm; cell("time-accessor/SGal3", ok ? 0 : 1); if (!ok) viol("accessor-differs/SGal3::t()", 1, j); }
    // accessor results are values: held by `auto`, they must not change when the element is modified afterwards
    {
      auto chk = [&](const char* n, bool ok) { cell(std::string("accessor-results-are-values/") + n, ok ? 0 : 1); if (!ok) viol(std::string("accessor-result-follows-later-modification/") + n, 1, j); };
      { SE3<S> W = X3; auto a1 = W.translation(); auto a2 = W.rotation(); auto a3 = W.quat(); auto a4 = W.transform(); auto a5 = W.isometry(); auto a6 = W.x();
        W.setIdentity(); chk("SE3", exactEq(V3(a1), t) && exactEq(Eigen::Matrix<S, 3, 3>(a2), Rw) && exactEq(typename SO3<S>::DataType(a3.coeffs()), SO3<S>(Q).coeffs()) && exactEq(a4, X3.transform()) && exactEq(a5.matrix(), X3.isometry().matrix()) && a6 == t(0)); }
      { SE_2_3<S> W = X5; auto a1 = W.translation(); auto a2 = W.rotation(); auto a3 = W.quat(); auto a4 = W.transform(); auto a5 = W.linearVelocity(); auto a6 = W.isometry();
        W.setIdentity(); chk("SE_2_3", exactEq(V3(a1), t) && exactEq(Eigen::Matrix<S, 3, 3>(a2), Rw) && exactEq(typename SO3<S>::DataType(a3.coeffs()), SO3<S>(Q).coeffs()) && exactEq(a4, X5.transform()) && exactEq(V3(a5), v) && exactEq(a6, X5.isometry())); }
      { SGal3<S> W = XG; auto a1 = W.translation(); auto a2 = W.rotation(); auto a3 = W.quat(); auto a4 = W.transform(); auto a5 = W.linearVelocity(); auto a6 = W.t();
        W.setIdentity(); chk("SGal3", exactEq(V3(a1), t) && exactEq(Eigen::Matrix<S, 3, 3>(a2), Rw) && exactEq(typename SO3<S>::DataType(a3.coeffs()), SO3<S>(Q).coeffs()) && exactEq(a4, XG.transform()) && exactEq(V3(a5), v) && a6 == tm); }
      { SO3<S> W(Q); const SO3<S> W0 = W; auto a2 = W.rotation(); auto a3 = W.quat(); auto a4 = W.transform();
        W.setIdentity(); chk("SO3", exactEq(Eigen::Matrix<S, 3, 3>(a2), Rw) && exactEq(typename SO3<S>::DataType(a3.coeffs()), W0.coeffs()) && exactEq(a4, W0.transform())); }
    }
    // angle-axis constructors == quaternion constructor of Quaternion(angle-axis)
    { bool ok = exactEq(SE3<S>(t, AA).coeffs(), SE3<S>(t, QA).coeffs()) && exactEq(SE_2_3<S>(t, AA, v).coeffs(), SE_2_3<S>(t, QA, v).coeffs()) && exactEq(SGal3<S>(t, AA, v, tm).coeffs(), SGal3<S>(t, QA, v, tm).coeffs());
      cell("angle-axis-constructors", ok ? 0 : 1); if (!ok) viol("constructor-inconsistent/(t,angle-axis,...)", 1, j);
      double e = std::max({sameTransform(SE3<S>(t, AA), SE3<S>(t, RA)), sameTransform(SE_2_3<S>(t, AA, v), SE_2_3<S>(t, RA, v)), sameTransform(SGal3<S>(t, AA, v, tm), SGal3<S>(t, RA, v, tm))}) / sc;
      cell("angle-axis-vs-SO3-constructors", e); if (!(e <= 64 * U)) viol("constructor-inconsistent/(t,angle-axis,...)-vs-(t,SO3,...)", e, j); }
    // roll-pitch-yaw constructor of SE_2_3 (x,y,z,roll,pitch,yaw,vx,vy,vz)
    { SE_2_3<S> E(t(0), t(1), t(2), ro, pi, ya, v(0), v(1), v(2));
      bool ok = exactEq(typename SO3<S>::DataType(E.quat().coeffs()), Er.coeffs()) && exactEq(V3(E.translation()), t) && exactEq(V3(E.linearVelocity()), v);
      cell("SE_2_3(x,y,z,r,p,y,vx,vy,vz)", ok ? 0 : 1); if (!ok) viol("constructor-inconsistent/SE_2_3(x,y,z,r,p,y,vx,vy,vz)", 1, j); }
    // isometry constructors fed with the element's own isometry()
    { double e = std::max({sameTransform(SE3<S>(X3.isometry()), X3), sameTransform(SE_2_3<S>(X3.isometry(), v), X5), sameTransform(SGal3<S>(X3.isometry(), v, tm), XG)}) / sc;
      cell("isometry-constructors", e); if (!(e <= 64 * U)) viol("accessors-fed-back/(isometry,...)", e, j); }
  }
  {
    Rn<S, 3> X(t); if (!exactEq(V3(X.coeffs()), t)) viol("accessor-differs/R3", 1, j);
    typedef Bundle<S, SE2, SO3, R3> B;
    SE2<S> a((S)1, (S)2, (S)0.3); R3<S> c(t);
    B b(a, R, c);
    bool ok = exactEq(typename SE2<S>::DataType(b.template element<0>().coeffs()), a.coeffs()) && exactEq(typename SO3<S>::DataType(b.template element<1>().coeffs()), R.coeffs()) && exactEq(V3(b.template element<2>().coeffs()), t);
    cell("Bundle(elements)", ok ? 0 : 1); if (!ok) viol("accessor-differs/Bundle(elements)", 1, j);
    castChecks("Bundle<SE2,SO3,R3>", b, {{2, 2}, {4, 4}});
  }
}

// ---- tangent accessors: the documented slots of every tangent type, const and mutable blocks, on owning objects and on views -------
template <class B> static bool blockIs(const B& blk, const S* base, int off, int n) { if ((int)blk.size() != n) return false; for (int k = 0; k < n; ++k) if (&blk.coeffRef(k) != base + off + k) return false; return true; }
template <class T> static void tangentAccessors(const std::string& who, Prng& r, std::initializer_list<int> layout /* lin, ang, lin2 offsets or -1 */) {
  typename T::DataType c; for (int k = 0; k < (int)c.size(); ++k) c(k) = (S)(r.gauss() * 3);
  T t(c); const T& ct = t; typename T::DataType buf = c; Eigen::Map<T> mt(buf.data()); const Eigen::Map<const T> cmt(buf.data());
  std::vector<int> L(layout);
  bool ok = true; std::string why;
  auto chk = [&](bool b, const char* w) { if (!b && ok) { ok = false; why = w; } };
  // const accessors read the documented coefficients; mutable ones alias them
  if (L[0] >= 0) { chk(blockIs(t.lin(), t.data(), L[0], 3) && blockIs(mt.lin(), buf.data(), L[0], 3), "mutable lin()"); for (int k = 0; k < 3; ++k) chk(ct.lin()(k) == c(L[0] + k) && cmt.lin()(k) == c(L[0] + k), "const lin()"); }
  if (L[1] >= 0) { chk(blockIs(t.ang(), t.data(), L[1], 3) && blockIs(mt.ang(), buf.data(), L[1], 3), "mutable ang()"); for (int k = 0; k < 3; ++k) chk(ct.ang()(k) == c(L[1] + k) && cmt.ang()(k) == c(L[1] + k), "const ang()"); }
  cell("tangent-accessors/" + who, ok ? 0 : 1);
  if (!ok) viol("tangent-accessor-wrong-slot/" + who, 1, J().s("which", why).vec("t", c));
}
template <class T> static void tangentAccessors2(const std::string& who, Prng& r, int off2) {
  typename T::DataType c; for (int k = 0; k < (int)c.size(); ++k) c(k) = (S)(r.gauss() * 3);
  T t(c); const T& ct = t; typename T::DataType buf = c; Eigen::Map<T> mt(buf.data()); const Eigen::Map<const T> cmt(buf.data());
  bool ok = blockIs(t.lin2(), t.data(), off2, 3) && blockIs(mt.lin2(), buf.data(), off2, 3);
  for (int k = 0; k < 3; ++k) ok = ok && ct.lin2()(k) == c(off2 + k) && cmt.lin2()(k) == c(off2 + k);
  cell("tangent-accessors/" + who + "::lin2", ok ? 0 : 1);
  if (!ok) viol("tangent-accessor-wrong-slot/" + who + "::lin2", 1, J().vec("t", c));
}
static void caseTangents(Prng& r) {
  tangentAccessors<SE3Tangent<S>>("SE3Tangent", r, {0, 3});
  tangentAccessors<SE_2_3Tangent<S>>("SE_2_3Tangent", r, {0, 3}); tangentAccessors2<SE_2_3Tangent<S>>("SE_2_3Tangent", r, 6);
  tangentAccessors<SGal3Tangent<S>>("SGal3Tangent", r, {0, 6}); tangentAccessors2<SGal3Tangent<S>>("SGal3Tangent", r, 3);
  { typename SGal3Tangent<S>::DataType c; for (int k = 0; k < 10; ++k) c(k) = (S)(k + 1); SGal3Tangent<S> t(c); const Eigen::Map<const SGal3Tangent<S>> m(c.data()); if (!(t.t() == c(9) && m.t() == c(9))) viol("tangent-accessor-wrong-slot/SGal3Tangent::t", 1, J().vec("t", c)); }
  { SE2Tangent<S> t((S)1, (S)2, (S)3); const Eigen::Map<const SE2Tangent<S>> m(t.data()); bool ok = t.x() == 1 && t.y() == 2 && t.angle() == 3 && m.x() == 1 && m.y() == 2 && m.angle() == 3; cell("tangent-accessors/SE2Tangent", ok ? 0 : 1); if (!ok) viol("tangent-accessor-wrong-slot/SE2Tangent", 1, J().vec("t", t.coeffs())); }
  { SO3Tangent<S> t(typename SO3Tangent<S>::DataType((S)1, (S)2, (S)3)); const Eigen::Map<const SO3Tangent<S>> m(t.data()); bool ok = t.x() == 1 && t.y() == 2 && t.z() == 3 && m.x() == 1 && m.z() == 3 && blockIs(t.ang(), t.data(), 0, 3) && static_cast<const SO3Tangent<S>&>(t).ang()(1) == 2 && m.ang()(2) == 3; cell("tangent-accessors/SO3Tangent", ok ? 0 : 1); if (!ok) viol("tangent-accessor-wrong-slot/SO3Tangent", 1, J().vec("t", t.coeffs())); }
  { SO2Tangent<S> t((S)0.7); const Eigen::Map<const SO2Tangent<S>> m(t.data()); bool ok = t.angle() == (S)0.7 && m.angle() == (S)0.7; cell("tangent-accessors/SO2Tangent", ok ? 0 : 1); if (!ok) viol("tangent-accessor-wrong-slot/SO2Tangent", 1, J().vec("t", t.coeffs())); }
}

// ---- validation of rotation data -------------------------------------------------------------------------------------
template <class F> static std::string outcome(F f) {
  try { f(); } catch (const manif::invalid_argument&) { return "invalid_argument"; } catch (const std::exception& e) { return std::string("other:") + e.what(); }
  return "accepted";
}
static void caseValidation(Prng& r) {
  S q[4]; randUnitQuat(r, q);
  // exactly representable scalings so that the norm really is 1+delta up to rounding of the norm computation
  static const double REL[] = {0, 0.5, 0.9, 0.95, -0.5, -0.95, 1.05, 1.5, 10, 1e3, -1.05, -1.5, -10, 1e6, 0.97, 1.0, 1.03, -1.0};
  double rel = REL[r.below(18)]; LD f = 1 + (LD)rel * (LD)EPS;
  LD n = std::sqrt((LD)q[0] * q[0] + (LD)q[1] * q[1] + (LD)q[2] * q[2] + (LD)q[3] * q[3]);
  S qs[4]; for (int i = 0; i < 4; ++i) qs[i] = (S)((LD)q[i] / n * f);
  LD a = r.uni(-PI, PI); S cs[2] = {(S)(std::cos(a) * f), (S)(std::sin(a) * f)};
  const bool mustAccept = std::fabs(rel) <= 0.95, mustReject = std::fabs(rel) >= 1.05, band = !mustAccept && !mustReject;
  typedef Eigen::Matrix<S, 3, 1> V3; V3 t(1, 2, 3);
  Eigen::Quaternion<S> Q(qs[3], qs[0], qs[1], qs[2]);
  struct { const char* n; std::string o; } ent[] = {
    {"SO3(quaternion)", outcome([&] { SO3<S> X(Q); })}, {"SO3(x,y,z,w)", outcome([&] { SO3<S> X(qs[0], qs[1], qs[2], qs[3]); })},
    {"SO3(coeff-vector)", outcome([&] { SO3<S> X((Eigen::Matrix<S, 4, 1>() << qs[0], qs[1], qs[2], qs[3]).finished()); })},
    {"SO3::quat(q)", outcome([&] { SO3<S> X = SO3<S>::Identity(); X.quat(Q); })},
    {"SO2(real,imag)", outcome([&] { SO2<S> X(cs[0], cs[1]); })}, {"SO2(coeff-vector)", outcome([&] { SO2<S> X((Eigen::Matrix<S, 2, 1>() << cs[0], cs[1]).finished()); })},
    {"SE2(x,y,real,imag)", outcome([&] { SE2<S> X((S)1, (S)2, cs[0], cs[1]); })}, {"SE2(t,complex)", outcome([&] { SE2<S> X(typename SE2<S>::Translation(1, 2), std::complex<S>(cs[0], cs[1])); })},
    {"SE3(t,q)", outcome([&] { SE3<S> X(t, Q); })}, {"SE3::quat(q)", outcome([&] { SE3<S> X = SE3<S>::Identity(); X.quat(Q); })},
    {"SE3(coeff-vector)", outcome([&] { SE3<S> X((Eigen::Matrix<S, 7, 1>() << 1, 2, 3, qs[0], qs[1], qs[2], qs[3]).finished()); })},
    {"SE_2_3(t,q,v)", outcome([&] { SE_2_3<S> X(t, Q, t); })}, {"SGal3(t,q,v,time)", outcome([&] { SGal3<S> X(t, Q, t, (S)1); })},
    {"SGal3(coeff-vector)", outcome([&] { SGal3<S> X((Eigen::Matrix<S, 11, 1>() << 1, 2, 3, qs[0], qs[1], qs[2], qs[3], 1, 2, 3, 4).finished()); })}};
  char lb[32]; snprintf(lb, sizeof lb, "delta=%+geps", rel);
  for (auto& e : ent) {
    J j; j.s("entry", e.n).d("delta_over_eps", rel).s("outcome", e.o).vec("q", std::vector<S>(qs, qs + 4)).vec("c", std::vector<S>(cs, cs + 2));
    if (band) { LOG.count(std::string("validation-band-sample/") + e.o + "/" + SN() + "/" + BN()); continue; }
    bool ok;
    if (!ASSERTS) ok = e.o == "accepted";                        // with NDEBUG nothing is rejected
    else ok = mustAccept ? e.o == "accepted" : e.o == "invalid_argument";
    cell(std::string("validation/") + e.n + "/" + lb, ok ? 0 : 1);
    if (!ok) viol(std::string(!ASSERTS ? "rejected-with-NDEBUG/" : mustAccept ? "valid-data-rejected/" : e.o == "accepted" ? "invalid-data-accepted/" : "wrong-exception-type/") + e.n + "/" + BN(), std::fabs(rel), j);
  }
  // normalize() makes any non-degenerate data acceptable
  {
    double sc = std::pow(10.0, sizeof(S) == 4 ? r.uni(-15, 15) : r.uni(-150, 150));
    SO3<S> X(Eigen::Quaternion<S>(q[3], q[0], q[1], q[2])); for (int i = 0; i < 4; ++i) X.coeffs()(i) = (S)((double)q[i] * sc);
    X.normalize(); std::string o1 = outcome([&] { SO3<S> Y(X.coeffs()); });
    SE3<S> E(t, Eigen::Quaternion<S>(q[3], q[0], q[1], q[2])); for (int i = 0; i < 4; ++i) E.coeffs()(3 + i) = (S)((double)q[i] * sc); E.normalize(); std::string o2 = outcome([&] { SE3<S> Y(E.coeffs()); });
    SE2<S> F((S)1, (S)2, (S)a); F.coeffs()(2) = (S)((double)F.coeffs()(2) * sc); F.coeffs()(3) = (S)((double)F.coeffs()(3) * sc); F.normalize(); std::string o3 = outcome([&] { SE2<S> Y(F.coeffs()); });
    SGal3<S> Gx(t, Eigen::Quaternion<S>(q[3], q[0], q[1], q[2]), t, (S)1); for (int i = 0; i < 4; ++i) Gx.coeffs()(3 + i) = (S)((double)q[i] * sc); Gx.normalize(); std::string o4 = outcome([&] { SGal3<S> Y(Gx.coeffs()); });
    bool ok = o1 == "accepted" && o2 == "accepted" && o3 == "accepted" && o4 == "accepted";
    cell("normalize-makes-acceptable", ok ? 0 : 1);
    if (!ok) viol("normalize-result-rejected/" + BN(), sc, J().d("scale", sc).s("SO3", o1).s("SE3", o2).s("SE2", o3).s("SGal3", o4).vec("q", std::vector<S>(q, q + 4)));
  }
}

int main(int argc, char** argv) {
  Args a(argc, argv); gA = &a;
  LOG.monitor = std::string(MON_NAME) + ":" + SN() + "/" + BN();
  long long lo = 0, hi = a.n; if (a.only >= 0) { lo = a.only; hi = a.only + 1; }
  for (long long i = lo; i < hi; ++i) {
    gI = i; Prng r(a.seed, (uint64_t)i);
    try {
      switch (i % 5) { case 0: caseSO2(r); caseSE2(r); if (i % 50 == 0) caseTangents(r); break; case 1: caseSO3(r); break; case 2: caseSE3family(r); break; default: caseValidation(r); }
    } catch (const std::exception& e) { viol(std::string("uncaught-exception/") + BN(), 1, J().s("what", e.what())); }
  }
  LOG.sample(J().s("monitor", LOG.monitor).u("seed", a.seed).s("note", "cases cycle through SO2+SE2 / SO3 / SE3+SE_2_3+SGal3+R3+Bundle constructors and (2 of 5) validation of off-sphere rotation data").str());
  LOG.finish();
  return 0;
}
