// The group under test of a monitor translation unit is selected with -DMG=<name> -DMS=<scalar>.
#pragma once
#include <manif/manif.h>

template <class S> using G_SO2 = manif::SO2<S>;
template <class S> using G_SE2 = manif::SE2<S>;
template <class S> using G_SO3 = manif::SO3<S>;
template <class S> using G_SE3 = manif::SE3<S>;
template <class S> using G_SE23 = manif::SE_2_3<S>;
template <class S> using G_SGAL3 = manif::SGal3<S>;
template <class S> using G_R1 = manif::Rn<S, 1>;
template <class S> using G_R2 = manif::Rn<S, 2>;
template <class S> using G_R3 = manif::Rn<S, 3>;
template <class S> using G_R4 = manif::Rn<S, 4>;
template <class S> using G_R5 = manif::Rn<S, 5>;
template <class S> using G_R6 = manif::Rn<S, 6>;
template <class S> using G_R7 = manif::Rn<S, 7>;
template <class S> using G_R8 = manif::Rn<S, 8>;
template <class S> using G_R9 = manif::Rn<S, 9>;
// Bundle layouts: the 7 cyclic triples of (SO2 SE2 SO3 SE3 SE_2_3 SGal3 R3) -> every group first, middle, last
template <class S> using G_BT0 = manif::Bundle<S, manif::SO2, manif::SE2, manif::SO3>;
template <class S> using G_BT1 = manif::Bundle<S, manif::SE2, manif::SO3, manif::SE3>;
template <class S> using G_BT2 = manif::Bundle<S, manif::SO3, manif::SE3, manif::SE_2_3>;
template <class S> using G_BT3 = manif::Bundle<S, manif::SE3, manif::SE_2_3, manif::SGal3>;
template <class S> using G_BT4 = manif::Bundle<S, manif::SE_2_3, manif::SGal3, manif::R3>;
template <class S> using G_BT5 = manif::Bundle<S, manif::SGal3, manif::R3, manif::SO2>;
template <class S> using G_BT6 = manif::Bundle<S, manif::R3, manif::SO2, manif::SE2>;
// single-element bundles
template <class S> using G_BS0 = manif::Bundle<S, manif::SO2>;
template <class S> using G_BS1 = manif::Bundle<S, manif::SE2>;
template <class S> using G_BS2 = manif::Bundle<S, manif::SO3>;
template <class S> using G_BS3 = manif::Bundle<S, manif::SE3>;
template <class S> using G_BS4 = manif::Bundle<S, manif::SE_2_3>;
template <class S> using G_BS5 = manif::Bundle<S, manif::SGal3>;
template <class S> using G_BS6 = manif::Bundle<S, manif::R3>;
// repeats
template <class S> using G_BR0 = manif::Bundle<S, manif::SO3, manif::SO3>;
template <class S> using G_BR1 = manif::Bundle<S, manif::SE2, manif::SE2, manif::SE2>;
template <class S> using G_BR2 = manif::Bundle<S, manif::R1, manif::R1, manif::R9>;
// long: all seven + R5
template <class S> using G_BL0 = manif::Bundle<S, manif::SO2, manif::SE2, manif::SO3, manif::SE3, manif::SE_2_3, manif::SGal3, manif::R3, manif::R5>;
// layouts of the existing tests
template <class S> using G_BA = manif::Bundle<S, manif::R2, manif::SO3, manif::R1>;
template <class S> using G_BC = manif::Bundle<S, manif::R2, manif::SO2, manif::SE2, manif::SO3, manif::SE3>;
template <class S> using G_BD = manif::Bundle<S, manif::SE2, manif::R7, manif::SO3, manif::R2, manif::R2>;

#define MG_CAT2(a, b) a##b
#define MG_CAT(a, b) MG_CAT2(a, b)
#define MG_STR2(a) #a
#define MG_STR(a) MG_STR2(a)
#ifdef MG
typedef MG_CAT(G_, MG)<MS> MonG;
static const char* const MonGName = MG_STR(MG);
static const char* const MonSName = MG_STR(MS);
#endif
