// C16 monitor: averages are valid, stationary and equivariant.
#define MON_NAME "c16_average"
#include "mon.h"
#include <manif/algorithms/average.h>
#include <list>
#include <cstring>
#include <deque>
#include <vector>
#include <algorithm>

static const double PI = 3.14159265358979323846;
using ref::VecL; using ref::GM; using ref::LD;
typedef std::vector<MonG> Cloud;

template <class T> struct Is1DoF { static const bool v = T::DoF == 1; };
static const char* RN[] = {"biinvariant", "frechet_left", "frechet_right", "average"};
template <class C> static MonG runAvg(int which, const C& c) {
  switch (which) {
    case 0: return manif::average_biinvariant(c);
    case 1: return manif::average_frechet_left(c);
    case 2: return manif::average_frechet_right(c);
    default: return manif::average(c);
  }
}
// the same routines with their optional arguments spelled out
static MonG runAvgArgs(int which, const Cloud& c, MonS eps, int iters) {
  switch (which) {
    case 0: return manif::average_biinvariant(c, eps, iters);
    case 1: return manif::average_frechet_left(c, eps, iters);
    case 2: return manif::average_frechet_right(c, eps, iters);
    default: return manif::average(c, eps, iters);
  }
}
static bool sameBitsG(const MonG& a, const MonG& b) { return std::memcmp(a.data(), b.data(), sizeof(MonS) * MonG::RepSize) == 0; }

void runOnce(const Args&) {
  for (int w = 0; w < 4; ++w) {  // an empty set raises
    bool threw = false;
    try { runAvg(w, Cloud()); } catch (const std::exception&) { threw = true; }
    LOG.cell(std::string("empty-raises/") + RN[w] + "/" + GN(), threw ? 0 : 1);
    if (!threw) LOG.viol(std::string("empty-accepted/") + RN[w] + "/" + GN(), 1, "{}");
  }
}

// residual mean tangent at m, computed on the model: (1/n) sum log(m^-1 X_i)
static VecL residual(const GM& m, const std::vector<GM>& pts) {
  const ref::Group& g = RG();
  VecL s = VecL::Zero(g.dof);
  for (auto& x : pts) s += ref::gminus(g, x, m);
  return s / (LD)pts.size();
}
static LD tangentDist(const GM& a, const GM& b) { return ref::gminus(RG(), a, b).cwiseAbs().maxCoeff(); }

void runCase(long long i, Prng& r, const Args& a) {
  const ref::Group& g = RG();
  const bool dbl = sizeof(MonS) == 8;
  GenOpt o; o.thetaMax = PI; o.nearPiMin = 0; o.linMax = dbl ? 1e3 : 1e1; o.tinyTheta = false;
  std::string lc;
  MonG C = groupFrom<MonG>(genElement<MonS>(g, r, o, lc));
  const int n = 1 + r.below(i % 7 == 0 ? 50 : 12);
  const double radius = (i % 5 == 0) ? 0.5 : r.logu(1e-6, 0.5);
  Cloud pts;
  const bool identical = (i % 9 == 0);
  for (int k = 0; k < n; ++k) {
    std::vector<double> d(g.dof);
    for (int b = 0; b < g.nb(); ++b) {
      const ref::Elem& e = g.el[b]; double ax[3]; rotAxis(r, ax); double th = radius * r.u01();
      if (e.rot == 2) d[g.dofOff[b] + e.rotIdx[0]] = th * r.sign();
      if (e.rot == 3) for (int q = 0; q < 3; ++q) d[g.dofOff[b] + e.rotIdx[q]] = th * ax[q];
      for (int q : e.linIdx) d[g.dofOff[b] + q] = radius * r.uni(-1, 1);
      if (e.timeIdx >= 0) d[g.dofOff[b] + e.timeIdx] = radius * r.uni(-1, 1);
    }
    pts.push_back(identical ? C : C.rplus(tangentFrom<MonT>(d)));
  }
  std::vector<GM> MP; for (auto& x : pts) MP.push_back(gmOf(x));
  char rb[32]; snprintf(rb, sizeof rb, "r~1e%d", (int)std::floor(std::log10(radius)));
  const std::string lab = dropLin(lc) + "/" + rb + (identical ? "/identical" : "") + (n == 1 ? "/n=1" : n > 12 ? "/n>12" : "");
  J base; base.vec("C", C.coeffs()).i("n", n).d("radius", radius);
  auto viol = [&](const std::string& key, double mag) { LOG.viol(key, mag, caseJ(a, i).d("mag", mag).raw("inputs", base.str()).str()); };
  const double stopTol = 4 * std::sqrt(Sc<MonS>::eps());            // stopping rule ||mean||^2 < eps
  const LD cs = std::max((LD)1, ref::gscale(gmOf(C)));

  // translations used for the equivariance clauses
  // moderate elements (every tangent coordinate in [-1,1]) so that Adj of the translations does not amplify the stopping tolerance
  auto moderate = [&]() { std::vector<double> d(g.dof); for (auto& x : d) x = r.uni(-1, 1); return tangentFrom<MonT>(d).exp(); };
  MonG L = moderate(), R = moderate();

  for (int w = 0; w < 4; ++w) {
    const std::string key = std::string(RN[w]) + "/" + GN();
    MonG m;
    try { m = runAvg(w, pts); }
    catch (const std::exception& e) { LOG.cell("avg/" + key + "/" + lab, INFINITY); viol("throws/" + key + "/" + dropLin(lc), 1); continue; }
    double nd = (double)normDev(g, m.coeffs());
    if (!finiteVec(m.coeffs()) || !(nd < Sc<MonS>::eps())) { LOG.cell("avg/" + key + "/" + lab, INFINITY); viol("invalid-result/" + key + "/" + dropLin(lc), nd); continue; }
    GM Mm = gmOf(m);
    if (i % 3 == 0) {
      // the routines are templates over the container: list, deque and a vector with Eigen's aligned allocator hold the same points
      // in the same order and must give the same bits; so must the defaults spelled out
      std::list<MonG> li(pts.begin(), pts.end()); std::deque<MonG> dq(pts.begin(), pts.end());
      std::vector<MonG, Eigen::aligned_allocator<MonG>> av(pts.begin(), pts.end());
      bool ok = sameBitsG(runAvg(w, li), m) && sameBitsG(runAvg(w, dq), m) && sameBitsG(runAvg(w, av), m) && sameBitsG(runAvgArgs(w, pts, manif::Constants<MonS>::eps, 20), m);
      LOG.cell("container-and-default-arguments/" + key, ok ? 0 : 1);
      if (!ok) viol("depends-on-container-or-spelled-out-defaults/" + key, 1);
    }
    if (identical || n == 1) {
      double e = (double)(tangentDist(Mm, MP[0]) / cs);
      LOG.cell("identical-points/" + key + "/" + lab, e);
      if (!(e <= (dbl ? 1e-12 : 1e-5))) viol("identical-points-moved/" + key + "/" + dropLin(lc), e);
      continue;
    }
    if (w < 3) {
      // stationarity: the mean tangent at the result vanishes up to the stopping tolerance (=> the iteration terminated by convergence)
      double res = (double)(residual(Mm, MP).norm() / cs);
      LOG.cell("stationary/" + key + "/" + lab, res); LOG.maxi("residual/" + key, res);
      if (!(res <= stopTol)) viol("not-stationary/" + key + "/" + dropLin(lc), res);
      // a larger iteration budget changes nothing beyond the stopping tolerance (the default budget was enough), and a looser
      // user-supplied tolerance is honoured as a tolerance: residual within 4*sqrt(eps_user)
      if (i % 3 == 1) {
        double eb = (double)(tangentDist(gmOf(runAvgArgs(w, pts, manif::Constants<MonS>::eps, 200)), Mm) / cs);
        LOG.cell("larger-budget/" + key + "/" + lab, eb);
        if (!(eb <= 2 * stopTol)) viol("default-budget-not-converged/" + key + "/" + dropLin(lc), eb);
        const MonS eu = (MonS)1e-4; MonG ml = runAvgArgs(w, pts, eu, 20);
        double rl = (double)(residual(gmOf(ml), MP).norm() / cs);
        LOG.cell("user-tolerance/" + key + "/" + lab, rl);
        if (!(rl <= 4 * std::sqrt((double)eu)) || !(normDev(g, ml.coeffs()) < Sc<MonS>::eps())) viol("user-tolerance-not-honoured/" + key + "/" + dropLin(lc), rl);
      }
      // order independence
      Cloud sh = pts; for (int k = (int)sh.size() - 1; k > 0; --k) std::swap(sh[k], sh[r.below(k + 1)]);
      double ep = (double)(tangentDist(gmOf(runAvg(w, sh)), Mm) / cs);
      LOG.cell("permutation/" + key + "/" + lab, ep); LOG.maxi("permutation-diff/" + key, ep);
      if (!(ep <= 2 * stopTol)) viol("order-dependent/" + key + "/" + dropLin(lc), ep);
      // commutes with left and right translation of all points
      Cloud tr; for (auto& x : pts) tr.push_back(L * x * R);
      MonG mt = runAvg(w, tr), want = L * m * R;
      double ee = (double)(tangentDist(gmOf(mt), gmOf(want)) / (cs * 4));
      LOG.cell("bi-equivariant/" + key + "/" + lab, ee); LOG.maxi("equivariance-diff/" + key, ee);
      if (!(ee <= 2 * stopTol)) viol("not-equivariant/" + key + "/" + dropLin(lc), ee);
    } else {
      Cloud tr; for (auto& x : pts) tr.push_back(L * x);
      double ee = (double)(tangentDist(gmOf(runAvg(w, tr)), gmOf(L * m)) / (cs * 4));
      LOG.cell("left-equivariant/" + key + "/" + lab, ee); LOG.maxi("equivariance-diff/" + key, ee);
      if (!(ee <= 2 * stopTol)) viol("not-left-equivariant/" + key + "/" + dropLin(lc), ee);
      // the weighted average stays within the cloud: its distance to the centre is bounded by the radius
      double dc = (double)tangentDist(Mm, gmOf(C));
      LOG.cell("weighted-in-cloud/" + key + "/" + lab, dc);
      if (!(dc <= 4 * radius + 1e-9)) viol("weighted-average-outside-cloud/" + key + "/" + dropLin(lc), dc);
    }
  }
  if (i < 2) LOG.sample(caseJ(a, i).s("cell", lab).raw("inputs", base.str()).str());
}
