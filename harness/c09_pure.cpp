// C09 monitor: optional outputs are transparent; operations are pure and deterministic (bit-exact differential monitor).
#define MON_NAME "c09_pure"
#include "mon.h"
#include <cstring>
#include <memory>

static const double PI = 3.14159265358979323846;
typedef typename MonG::Jacobian MJ;
typedef tl::optional<Eigen::Ref<MJ>> Opt;
static const int DOF = MonG::DoF, DIM = MonG::Dim;
typedef Eigen::Matrix<MonS, MonG::Dim, MonG::DoF> MJm;
typedef Eigen::Matrix<MonS, MonG::Dim, MonG::Dim> MJp;

template <class A, class B> static bool bitEq(const A& a, const B& b) {
  if (a.rows() != b.rows() || a.cols() != b.cols()) return false;
  for (int j = 0; j < a.cols(); ++j) for (int i = 0; i < a.rows(); ++i) { MonS x = a(i, j), y = b(i, j); if (std::memcmp(&x, &y, sizeof(MonS)) != 0) return false; }
  return true;
}
static uint64_t H = 1469598103934665603ULL;   // running digest of golden results (FNV-1a over the bits)
template <class A> static void digest(const A& a) { for (int j = 0; j < a.cols(); ++j) for (int i = 0; i < a.rows(); ++i) { MonS x = a(i, j); unsigned char b[sizeof(MonS)]; std::memcpy(b, &x, sizeof b); for (unsigned char c : b) { H ^= c; H *= 1099511628211ULL; } } }

// bits of any result kind (group, tangent, Eigen object), appended to a vector
typedef std::vector<MonS> Bits;
template <class D> static void app(Bits& v, const Eigen::MatrixBase<D>& m) { for (int j = 0; j < m.cols(); ++j) for (int i = 0; i < m.rows(); ++i) v.push_back(m(i, j)); }
template <class D> static void app(Bits& v, const manif::LieGroupBase<D>& x) { app(v, x.coeffs()); }
template <class D> static void app(Bits& v, const manif::TangentBase<D>& x) { app(v, x.coeffs()); }
static bool sameBitsV(const Bits& a, const Bits& b) { return a.size() == b.size() && (a.empty() || std::memcmp(a.data(), b.data(), a.size() * sizeof(MonS)) == 0); }

struct Ops {
  const MonG& X; const MonG& Y; const MonT& t; const MonT& s; const typename MonG::Vector& p;
};
// canary matrix with the Jacobian bound to an interior block
struct Canary {
  Eigen::Matrix<MonS, -1, -1> big; int r0, c0, nr, nc;
  Canary(int nr_, int nc_, Prng& r) : nr(nr_), nc(nc_) {
    r0 = 1 + r.below(3); c0 = 1 + r.below(3);
    big.resize(nr + r0 + 2, nc + c0 + 1);
    for (int j = 0; j < big.cols(); ++j) for (int i = 0; i < big.rows(); ++i) big(i, j) = (MonS)(1000003.0 + 17.0 * i + 1.0 / (3 + j));
    big.block(r0, c0, nr, nc).setConstant(std::numeric_limits<MonS>::quiet_NaN());
  }
  bool outsideIntact() const {
    for (int j = 0; j < big.cols(); ++j) for (int i = 0; i < big.rows(); ++i) {
      if (i >= r0 && i < r0 + nr && j >= c0 && j < c0 + nc) continue;
      MonS want = (MonS)(1000003.0 + 17.0 * i + 1.0 / (3 + j)); MonS got = big(i, j);
      if (std::memcmp(&want, &got, sizeof(MonS)) != 0) return false;
    }
    return true;
  }
  bool blockWritten() const { for (int j = 0; j < nc; ++j) for (int i = 0; i < nr; ++i) if (big(r0 + i, c0 + j) != big(r0 + i, c0 + j)) return false; return true; }
};

static long long gCase; static const Args* gArgs; static std::string gCell; static J* gBase;
static void viol(const std::string& key) { LOG.viol(key + "/" + GN(), 1, caseJ(*gArgs, gCase).s("cell", gCell).raw("inputs", gBase->str()).str()); }

// two-output operations: value must not depend on the requested subset; each J must not depend on the other being requested
template <class F> static void twoOut(const char* name, Prng& r, F f) {
  MJ a1, b1, a2, b3; a1.setConstant(7); b1.setConstant(7); a2.setConstant(7); b3.setConstant(7);
  auto v0 = f(Opt{}, Opt{}); auto v1 = f(Opt(a1), Opt(b1)); auto v2 = f(Opt(a2), Opt{}); auto v3 = f(Opt{}, Opt(b3)); auto v4 = f(MonG::_, MonG::_);
  bool okv = bitEq(v0.coeffs(), v1.coeffs()) && bitEq(v0.coeffs(), v2.coeffs()) && bitEq(v0.coeffs(), v3.coeffs()) && bitEq(v0.coeffs(), v4.coeffs());
  bool okj = bitEq(a1, a2) && bitEq(b1, b3);
  Canary ca(DOF, DOF, r), cb(DOF, DOF, r);
  auto v5 = f(Opt(ca.big.block<MonG::DoF, MonG::DoF>(ca.r0, ca.c0)), Opt(cb.big.block<MonG::DoF, MonG::DoF>(cb.r0, cb.c0)));
  bool okb = ca.outsideIntact() && cb.outsideIntact() && ca.blockWritten() && cb.blockWritten() && bitEq(ca.big.block(ca.r0, ca.c0, DOF, DOF), a1) && bitEq(cb.big.block(cb.r0, cb.c0, DOF, DOF), b1) && bitEq(v5.coeffs(), v0.coeffs());
  auto w = f(Opt(a2), Opt(b3));   // repeat: identical
  bool okr = bitEq(w.coeffs(), v0.coeffs()) && bitEq(a2, a1) && bitEq(b3, b1);
  LOG.cell(std::string("subsets/") + name + "/" + GN(), (okv && okj && okb && okr) ? 0 : 1);
  if (!okv) viol(std::string("value-depends-on-requested-jacobians/") + name);
  if (!okj) viol(std::string("jacobian-depends-on-other-request/") + name);
  if (!okb) viol(std::string("block-output-not-exact/") + name);
  if (!okr) viol(std::string("not-repeatable/") + name);
  digest(v0.coeffs()); digest(a1); digest(b1);
}
template <class F> static void oneOut(const char* name, Prng& r, F f) {
  MJ a1, a2; a1.setConstant(7); a2.setConstant(7);
  auto v0 = f(Opt{}); auto v1 = f(Opt(a1)); auto v4 = f(MonG::_);
  bool okv = bitEq(v0.coeffs(), v1.coeffs()) && bitEq(v0.coeffs(), v4.coeffs());
  Canary ca(DOF, DOF, r);
  auto v5 = f(Opt(ca.big.block<MonG::DoF, MonG::DoF>(ca.r0, ca.c0)));
  bool okb = ca.outsideIntact() && ca.blockWritten() && bitEq(ca.big.block(ca.r0, ca.c0, DOF, DOF), a1) && bitEq(v5.coeffs(), v0.coeffs());
  auto w = f(Opt(a2));
  bool okr = bitEq(w.coeffs(), v0.coeffs()) && bitEq(a2, a1);
  LOG.cell(std::string("subsets/") + name + "/" + GN(), (okv && okb && okr) ? 0 : 1);
  if (!okv) viol(std::string("value-depends-on-requested-jacobians/") + name);
  if (!okb) viol(std::string("block-output-not-exact/") + name);
  if (!okr) viol(std::string("not-repeatable/") + name);
  digest(v0.coeffs()); digest(a1);
}

static void allOps(const MonG& X, const MonG& Y, const MonT& t, const MonT& s, const typename MonG::Vector& p, Prng& r) {
  oneOut("inverse", r, [&](Opt a) { return X.inverse(a); });
  oneOut("log", r, [&](Opt a) { return X.log(a); });
  oneOut("exp", r, [&](Opt a) { return t.exp(a); });
  twoOut("compose", r, [&](Opt a, Opt b) { return X.compose(Y, a, b); });
  twoOut("between", r, [&](Opt a, Opt b) { return X.between(Y, a, b); });
  twoOut("rplus", r, [&](Opt a, Opt b) { return X.rplus(t, a, b); });
  twoOut("lplus", r, [&](Opt a, Opt b) { return X.lplus(t, a, b); });
  twoOut("plus", r, [&](Opt a, Opt b) { return X.plus(t, a, b); });
  twoOut("rminus", r, [&](Opt a, Opt b) { return X.rminus(Y, a, b); });
  twoOut("lminus", r, [&](Opt a, Opt b) { return X.lminus(Y, a, b); });
  twoOut("minus", r, [&](Opt a, Opt b) { return X.minus(Y, a, b); });
  twoOut("tangent.plus(tangent)", r, [&](Opt a, Opt b) { return t.plus(s, a, b); });
  twoOut("tangent.minus(tangent)", r, [&](Opt a, Opt b) { return t.minus(s, a, b); });
  twoOut("tangent.rplus(group)", r, [&](Opt a, Opt b) { return t.rplus(X, a, b); });
  twoOut("tangent.lplus(group)", r, [&](Opt a, Opt b) { return t.lplus(X, a, b); });
  twoOut("tangent.plus(group)", r, [&](Opt a, Opt b) { return t.plus(X, a, b); });
  {  // act: Dim x DoF and Dim x Dim outputs
    typedef tl::optional<Eigen::Ref<MJm>> Om; typedef tl::optional<Eigen::Ref<MJp>> Op;
    MJm a1, a2; MJp b1, b3; a1.setConstant(7); a2.setConstant(7); b1.setConstant(7); b3.setConstant(7);
    auto v0 = X.act(p); auto v1 = X.act(p, Om(a1), Op(b1)); auto v2 = X.act(p, Om(a2), Op{}); auto v3 = X.act(p, Om{}, Op(b3));
    bool okv = bitEq(v0, v1) && bitEq(v0, v2) && bitEq(v0, v3), okj = bitEq(a1, a2) && bitEq(b1, b3);
    Canary ca(DIM, DOF, r), cb(DIM, DIM, r);
    auto v5 = X.act(p, Om(ca.big.block<MonG::Dim, MonG::DoF>(ca.r0, ca.c0)), Op(cb.big.block<MonG::Dim, MonG::Dim>(cb.r0, cb.c0)));
    bool okb = ca.outsideIntact() && cb.outsideIntact() && ca.blockWritten() && cb.blockWritten() && bitEq(ca.big.block(ca.r0, ca.c0, DIM, DOF), a1) && bitEq(cb.big.block(cb.r0, cb.c0, DIM, DIM), b1) && bitEq(v5, v0);
    LOG.cell("subsets/act/" + GN(), (okv && okj && okb) ? 0 : 1);
    if (!okv) viol("value-depends-on-requested-jacobians/act");
    if (!okj) viol("jacobian-depends-on-other-request/act");
    if (!okb) viol("block-output-not-exact/act");
    digest(v0); digest(a1); digest(b1);
  }
}

static void makeOperands(Prng& r, MonG& X, MonG& Y, MonT& t, MonT& s, typename MonG::Vector& p, std::string& label) {
  const ref::Group& g = RG();
  GenOpt o; o.thetaMax = PI - 1e-3; o.nearPiMin = 1e-3; o.linMax = 1e3; o.exactCoeff = 0.03;
  std::string l2;
  X = groupFrom<MonG>(genElement<MonS>(g, r, o, label));
  t = tangentFrom<MonT>(genTangent<MonS>(g, r, o, l2)); s = tangentFrom<MonT>(genTangent<MonS>(g, r, o, l2));
  Y = r.coin(0.5) ? X.rplus(s) : groupFrom<MonG>(genElement<MonS>(g, r, o, l2));
  std::vector<MonS> pv = genPoint<MonS>(g, r, 1e3); for (int k = 0; k < g.dim; ++k) p(k) = pv[k];
}

static uint64_t goldenDigest() {
  // fixed operands, independent of the process seed: results must be the same bits in every process, whenever they are computed
  uint64_t keep = H; H = 1469598103934665603ULL;
  Prng r(424242, 7);
  for (int k = 0; k < 20; ++k) {
    MonG X, Y; MonT t, s; typename MonG::Vector p; std::string l; makeOperands(r, X, Y, t, s, p, l);
    J b; gBase = &b; gCell = "golden";
    allOps(X, Y, t, s, p, r);
    digest(X.adj()); digest(t.rjac()); digest(t.ljac()); digest(t.rjacinv()); digest(t.hat()); digest(t.smallAdj());
  }
  uint64_t out = H; H = keep; return out;
}

static uint64_t gGoldenFirst = 0;
void runOnce(const Args& a) {
  gArgs = &a; gCase = -1;
  // in half of the processes the golden cases are the very first library activity (first use of every static happens inside them)
  if (a.seed % 2 == 0) gGoldenFirst = goldenDigest();
}

void runCase(long long i, Prng& r, const Args& a) {
  const ref::Group& g = RG();
  gArgs = &a; gCase = i;
  MonG X, Y; MonT t, s; typename MonG::Vector p; std::string label;
  makeOperands(r, X, Y, t, s, p, label);
  gCell = label;
  J base; base.vec("X", X.coeffs()).vec("Y", Y.coeffs()).vec("t", t.coeffs()).vec("s", s.coeffs()).vec("p", p); gBase = &base;
  // snapshot of the operands: no operation may modify its arguments
  const typename MonG::DataType x0 = X.coeffs(), y0 = Y.coeffs(); const typename MonT::DataType t0 = t.coeffs(), s0 = s.coeffs(); const typename MonG::Vector p0 = p;
  allOps(X, Y, t, s, p, r);
  bool untouched = bitEq(x0, X.coeffs()) && bitEq(y0, Y.coeffs()) && bitEq(t0, t.coeffs()) && bitEq(s0, s.coeffs()) && bitEq(p0, p);
  LOG.cell("arguments-untouched/" + GN(), untouched ? 0 : 1);
  if (!untouched) viol("operation-modified-its-arguments");
  // results assigned back onto an operand equal the unaliased computation
  {
    const MonG XX = X * X, Xi = X.inverse(), Xb = X.between(Y), XpT = X + t, XY = X * Y, Xl = X.lplus(t);
    MonG A = X; A = A * A; bool ok = bitEq(A.coeffs(), XX.coeffs());
    A = X; A = A.inverse(); ok = ok && bitEq(A.coeffs(), Xi.coeffs());
    A = X; A = A.between(Y); ok = ok && bitEq(A.coeffs(), Xb.coeffs());
    A = X; A *= A; ok = ok && bitEq(A.coeffs(), XX.coeffs());
    A = X; A = A.compose(A); ok = ok && bitEq(A.coeffs(), XX.coeffs());
    A = X; A = A.lplus(t); ok = ok && bitEq(A.coeffs(), Xl.coeffs());
    typename MonG::DataType buf = X.coeffs(); Eigen::Map<MonG> V(buf.data());
    V += t; ok = ok && bitEq(V.coeffs(), XpT.coeffs());
    buf = X.coeffs(); V *= Y; ok = ok && bitEq(V.coeffs(), XY.coeffs());
    buf = X.coeffs(); V = V * V; ok = ok && bitEq(V.coeffs(), XX.coeffs());
    buf = X.coeffs(); V = V.inverse(); ok = ok && bitEq(V.coeffs(), Xi.coeffs());
    MonT u = t; u = u + u; MonT u2 = t + t; ok = ok && bitEq(u.coeffs(), u2.coeffs());
    u = t; u += u; ok = ok && bitEq(u.coeffs(), u2.coeffs());
    u = t; u = -u; MonT u3 = -t; ok = ok && bitEq(u.coeffs(), u3.coeffs());
    LOG.cell("aliasing/" + GN(), ok ? 0 : 1);
    if (!ok) viol("aliased-assignment-differs");
  }
  // results are values: whatever an operation returns (held by `auto`, as client code does) must not change when the operands are
  // modified or destroyed afterwards -- an expression template or a view of an operand leaking out of the API would
  {
    std::unique_ptr<MonG> A(new MonG(X)), B(new MonG(Y)); std::unique_ptr<MonT> u(new MonT(t)), w(new MonT(s)); std::unique_ptr<typename MonG::Vector> q(new typename MonG::Vector(p));
    auto r1 = A->inverse(); auto r2 = A->log(); auto r3 = A->compose(*B); auto r4 = A->between(*B); auto r5 = A->rplus(*u); auto r6 = A->lplus(*u);
    auto r7 = A->rminus(*B); auto r8 = A->lminus(*B); auto r9 = A->act(*q); auto r10 = A->adj(); auto r11 = u->exp(); auto r12 = u->hat();
    auto r13 = u->rjac(); auto r14 = u->ljac(); auto r15 = u->smallAdj(); auto r16 = *u + *w; auto r17 = -(*u); auto r18 = *u * MonS(2); auto r19 = *A * *B;
    auto r20 = *A + *u; auto r21 = *A - *B; auto r22 = u->rjacinv(); auto r23 = u->ljacinv(); auto r24 = u->bracket(*w); auto r25 = *u + *A; auto r26 = *u - *w; auto r27 = *u / MonS(2);
    auto r28 = u->plus(*w); auto r29 = u->minus(*w); auto r30 = A->plus(*u); auto r31 = A->minus(*B); auto r32 = u->retract(); auto r33 = A->lift(); auto r34 = MonS(3) * *u;
    auto all = [&](Bits& v) { app(v, r1); app(v, r2); app(v, r3); app(v, r4); app(v, r5); app(v, r6); app(v, r7); app(v, r8); app(v, r9); app(v, r10); app(v, r11); app(v, r12); app(v, r13); app(v, r14);
                              app(v, r15); app(v, r16); app(v, r17); app(v, r18); app(v, r19); app(v, r20); app(v, r21); app(v, r22); app(v, r23); app(v, r24); app(v, r25); app(v, r26); app(v, r27);
                              app(v, r28); app(v, r29); app(v, r30); app(v, r31); app(v, r32); app(v, r33); app(v, r34); };
    Bits before, mid, after; all(before);
    A->setIdentity(); B->setIdentity(); u->setZero(); w->setZero(); q->setZero(); all(mid);
    A.reset(); B.reset(); u.reset(); w.reset(); q.reset(); all(after);   // under ASan a dangling reference into an operand is a heap-use-after-free here
    bool ok = sameBitsV(before, mid) && sameBitsV(before, after);
    LOG.cell("results-are-values/" + GN(), ok ? 0 : 1);
    if (!ok) viol("result-changes-when-operand-is-modified-later");
  }
  // determinism across "arbitrary other activity": in the middle and at the end of the run the golden cases reproduce the same bits
  if (i == a.n / 2 || i == a.n - 1 || a.only >= 0) {
    uint64_t d = goldenDigest();
    if (gGoldenFirst == 0) gGoldenFirst = d;
    LOG.cell("golden-repeat/" + GN(), d == gGoldenFirst ? 0 : 1);
    if (d != gGoldenFirst) viol("result-depends-on-earlier-calls");
    char b[32]; snprintf(b, sizeof b, "%016llx", (unsigned long long)d);
    LOG.count(std::string("golden/") + GN() + "/" + b);
  }
  if (i < 2) LOG.sample(caseJ(a, i).s("cell", label).raw("inputs", base.str()).str());
}
