// C12 monitor: generic in the scalar - a forward-mode dual number (the ceres::Jet pattern; stand-in of stubs/ceres/jet.h, manif's own
// ceres glue headers compiled unchanged) returns the same primal values as double and differentiates every operation correctly.
#define MON_NAME "c12_jet"
#include <manif/manif.h>
#include <manif/ceres/ceres.h>
#include <manif/ceres/local_parametrization.h>
#include <manif/ceres/manifold.h>
#include "grouplist.h"
#include "groups.h"
#include "strata.h"
#include <exception>
#include <iostream>

typedef typename MonG::Scalar MonS;   // double
typedef typename MonG::Tangent MonT;
static std::string GN() { return std::string(MonGName) + "/" + MonSName; }
static const ref::Group& RG() { return groupOf<MonG>(); }
static const double PI = 3.14159265358979323846;
static const int DOF = MonG::DoF, REP = MonG::RepSize, DIM = MonG::Dim;
static const int NJ = MonG::DoF + (MonG::DoF > MonG::Dim ? MonG::DoF : MonG::Dim);   // two seeded arguments at most (second: tangent or point)
typedef ceres::Jet<double, NJ> Jt;
typedef typename MonG::template LieGroupTemplate<Jt> GJ;
typedef typename MonT::template TangentTemplate<Jt> TJ;
typedef typename MonG::Jacobian MJ;
typedef Eigen::Matrix<double, -1, -1> Mx;

static_assert(manif::internal::is_ad<Jt>::value, "manif/ceres/ceres.h must mark the Jet as an AD scalar");

// lifting double objects to Jet objects with zero infinitesimal part
static GJ liftG(const MonG& X) { typename GJ::DataType c; for (int i = 0; i < REP; ++i) c(i) = Jt(X.coeffs()(i)); return GJ(c); }
static TJ liftT(const MonT& t) { typename TJ::DataType c; for (int i = 0; i < DOF; ++i) c(i) = Jt(t.coeffs()(i)); return TJ(c); }
// perturbation tangent: d_k = 0 + eps_{slot+k}
static TJ seedT(int slot) { typename TJ::DataType c; for (int i = 0; i < DOF; ++i) c(i) = Jt(0.0, slot * DOF + i); return TJ(c); }
// magnitude of the quantities entering the computation (coordinates; SGal3: time * velocity): differences of such quantities carry their
// round-off into values and, amplified by 1/theta, into derivatives taken through the closed forms; errors are judged relative to it
static double gInScale = 1;
template <class V> static Mx dualPart(const V& v, int slot, int ncols) { Mx J(v.size(), ncols); for (int i = 0; i < (int)v.size(); ++i) for (int k = 0; k < ncols; ++k) J(i, k) = v(i).v[slot * DOF + k]; return J; }
template <class V> static double primalDiff(const V& vj, const Eigen::Matrix<double, -1, 1>& vd) { double e = 0, s = gInScale; for (int i = 0; i < (int)vd.size(); ++i) { e = std::max(e, std::fabs(vj(i).a - vd(i))); s = std::max(s, std::fabs(vd(i))); } return e / s; }
static double relF(const Mx& A, const Mx& B) { if (LOG.verbose) { std::cerr.precision(6); std::cerr << "---- AD:\n" << A << "\nanalytic:\n" << B << "\ndiff:\n" << (A - B) << "\nrel=" << (A - B).norm() / (1 + B.norm()) << "\n"; } if (!A.allFinite()) return INFINITY; return (A - B).norm() / std::max(1 + B.norm(), gInScale); }

static const Args* gA; static long long gI; static std::string gCell, gV; static J* gBase;
static void rec(const std::string& what, double e, double tol) {
  LOG.cell(what + "/" + GN() + "/" + gCell, e); LOG.maxi(what + "-err/" + GN(), e);
  if (!(e <= tol)) LOG.viol(what + "/" + GN() + "/" + gV, e, J().s("monitor", LOG.monitor).u("seed", gA->seed).i("idx", gI).s("group", GN()).d("err", e).d("tol", tol).raw("inputs", gBase->str()).str());
}
void runCase(long long i, Prng& r, const Args& a);

int main(int argc, char** argv) {
  Args a(argc, argv); gA = &a;
  LOG.monitor = std::string(MON_NAME) + ":" + GN();
  for (auto& e : RG().el) { std::string s = ref::selfCheck(e, 7); if (!s.empty()) { fprintf(stderr, "reference model self-check failed: %s\n", s.c_str()); return 2; } }
  long long lo = 0, hi = a.n; if (a.only >= 0) { lo = a.only; hi = a.only + 1; }
  for (long long i = lo; i < hi; ++i) {
    Prng r(a.seed, (uint64_t)i); gI = i;
    try { runCase(i, r, a); }
    catch (const std::exception& e) { LOG.viol(std::string("uncaught-exception/") + GN(), 1, J().u("seed", a.seed).i("idx", i).s("monitor", LOG.monitor).s("group", GN()).s("what", e.what()).str()); }
  }
  LOG.finish();
  return 0;
}

void runCase(long long i, Prng& r, const Args& a) {
  const ref::Group& g = RG();
  GenOpt o; o.thetaMax = PI - 1e-3; o.nearPiMin = 1e-3; o.linMax = 1e3;
  std::string lx, lt, ly;
  const MonG X = groupFrom<MonG>(genElement<MonS>(g, r, o, lx));
  const MonT t = tangentFrom<MonT>(genTangent<MonS>(g, r, o, lt));
  const MonG Y = r.coin(0.6) ? X.compose((-t).exp()) : groupFrom<MonG>(genElement<MonS>(g, r, o, ly));
  typename MonG::Vector p; { std::vector<MonS> pv = genPoint<MonS>(g, r, 1e3); for (int k = 0; k < g.dim; ++k) p(k) = pv[k]; }
  J base; base.vec("X", X.coeffs()).vec("Y", Y.coeffs()).vec("t", t.coeffs()).vec("p", p); gBase = &base;
  // primal parts: Jet division is a*(1/b) (a few ulp per operation), and exactly at a small-angle switch-over the two scalars may take
  // different branches, whose values differ by the branch discontinuity (measured <= 8e-13 of the operand scale)
  const double TOL = 1e-6, PT = 1e-11;
  gInScale = std::max({1.0, (double)X.coeffs().cwiseAbs().maxCoeff(), (double)Y.coeffs().cwiseAbs().maxCoeff(), (double)t.coeffs().cwiseAbs().maxCoeff()});
  for (int b = 0; b < g.nb(); ++b) if (g.el[b].kind == ref::K_SGAL3) gInScale *= std::max({1.0, std::fabs((double)X.coeffs()(g.repOff[b] + 10)), std::fabs((double)Y.coeffs()(g.repOff[b] + 10)), std::fabs((double)t.coeffs()(g.dofOff[b] + 9))});
  const GJ Xj = liftG(X), Yj = liftG(Y); const TJ tj = liftT(t);
  const double thRel = (double)ref::gtheta(g, ref::gminus(g, gmOf(X), gmOf(Y))), thRelL = (double)ref::gtheta(g, ref::glog(g, ref::gmul(gmOf(X), ref::ginv(g, gmOf(Y)))));
  const double thX = (double)ref::gtheta(g, ref::glog(g, gmOf(X)));
  MJ Ja, Jb;
  typedef Eigen::Matrix<double, -1, 1> Vd;

  // ---- inverse ----
  gCell = lx; gV = dropLin(lx);
  { MonG F = X.inverse(Ja); GJ Fj = Xj.inverse();
    rec("primal/inverse", primalDiff(Fj.coeffs(), Vd(F.coeffs())), PT);
    TJ res = Xj.rplus(seedT(0)).inverse().rminus(Fj);
    rec("derivative/inverse", relF(dualPart(res.coeffs(), 0, DOF), Ja), TOL); }
  // ---- log ----
  if (thX < PI - 1e-2) { MonT F = X.log(Ja); TJ Fj = Xj.log();
    rec("primal/log", primalDiff(Fj.coeffs(), Vd(F.coeffs())), PT);
    TJ res = Xj.rplus(seedT(0)).log() - Fj;
    rec("derivative/log", relF(dualPart(res.coeffs(), 0, DOF), Ja), TOL); }
  // ---- exp ----
  gCell = lt; gV = dropLin(lt);
  { MonG F = t.exp(Ja); GJ Fj = tj.exp();
    rec("primal/exp", primalDiff(Fj.coeffs(), Vd(F.coeffs())), PT);
    TJ res = (tj + seedT(0)).exp().rminus(Fj);
    rec("derivative/exp", relF(dualPart(res.coeffs(), 0, DOF), Ja), TOL); }
  // ---- rplus / lplus (both arguments seeded at once: slots 0 and 1) ----
  { MonG F = X.rplus(t, Ja, Jb); GJ Fj = Xj.rplus(tj);
    rec("primal/rplus", primalDiff(Fj.coeffs(), Vd(F.coeffs())), PT);
    TJ res = Xj.rplus(seedT(0)).rplus(tj + seedT(1)).rminus(Fj);
    rec("derivative/rplus-J_m", relF(dualPart(res.coeffs(), 0, DOF), Ja), TOL); rec("derivative/rplus-J_t", relF(dualPart(res.coeffs(), 1, DOF), Jb), TOL); }
  { MonG F = X.lplus(t, Ja, Jb); GJ Fj = Xj.lplus(tj);
    rec("primal/lplus", primalDiff(Fj.coeffs(), Vd(F.coeffs())), PT);
    TJ res = Xj.rplus(seedT(0)).lplus(tj + seedT(1)).rminus(Fj);
    rec("derivative/lplus-J_m", relF(dualPart(res.coeffs(), 0, DOF), Ja), TOL); rec("derivative/lplus-J_t", relF(dualPart(res.coeffs(), 1, DOF), Jb), TOL); }
  // ---- compose / between ----
  gCell = lx; gV = dropLin(lx);
  { MonG F = X.compose(Y, Ja, Jb); GJ Fj = Xj.compose(Yj);
    rec("primal/compose", primalDiff(Fj.coeffs(), Vd(F.coeffs())), PT);
    TJ res = Xj.rplus(seedT(0)).compose(Yj.rplus(seedT(1))).rminus(Fj);
    rec("derivative/compose-J_a", relF(dualPart(res.coeffs(), 0, DOF), Ja), TOL); rec("derivative/compose-J_b", relF(dualPart(res.coeffs(), 1, DOF), Jb), TOL); }
  { MonG F = X.between(Y, Ja, Jb); GJ Fj = Xj.between(Yj);
    rec("primal/between", primalDiff(Fj.coeffs(), Vd(F.coeffs())), PT);
    TJ res = Xj.rplus(seedT(0)).between(Yj.rplus(seedT(1))).rminus(Fj);
    rec("derivative/between-J_a", relF(dualPart(res.coeffs(), 0, DOF), Ja), TOL); rec("derivative/between-J_b", relF(dualPart(res.coeffs(), 1, DOF), Jb), TOL); }
  // ---- rminus / lminus ----
  gCell = ly.empty() ? "rel:" + lt : ly; gV = dropLin(gCell);
  if (thRel < PI - 1e-2) { MonT F = X.rminus(Y, Ja, Jb); TJ Fj = Xj.rminus(Yj);
    rec("primal/rminus", primalDiff(Fj.coeffs(), Vd(F.coeffs())), PT);
    TJ res = Xj.rplus(seedT(0)).rminus(Yj.rplus(seedT(1))) - Fj;
    rec("derivative/rminus-J_a", relF(dualPart(res.coeffs(), 0, DOF), Ja), TOL); rec("derivative/rminus-J_b", relF(dualPart(res.coeffs(), 1, DOF), Jb), TOL); }
  if (thRelL < PI - 1e-2) { MonT F = X.lminus(Y, Ja, Jb); TJ Fj = Xj.lminus(Yj);
    rec("primal/lminus", primalDiff(Fj.coeffs(), Vd(F.coeffs())), PT);
    TJ res = Xj.rplus(seedT(0)).lminus(Yj.rplus(seedT(1))) - Fj;
    rec("derivative/lminus-J_a", relF(dualPart(res.coeffs(), 0, DOF), Ja), TOL); rec("derivative/lminus-J_b", relF(dualPart(res.coeffs(), 1, DOF), Jb), TOL); }
  // ---- act ----
  gCell = lx; gV = dropLin(lx);
  { Eigen::Matrix<double, MonG::Dim, MonG::DoF> Jm; Eigen::Matrix<double, MonG::Dim, MonG::Dim> Jp;
    typename MonG::Vector F = X.act(p, Jm, Jp);
    typename GJ::Vector pj; for (int k = 0; k < DIM; ++k) pj(k) = Jt(p(k), DOF + k);   // point seeded in slot 1
    typename GJ::Vector Fj = Xj.rplus(seedT(0)).act(pj);
    rec("primal/act", primalDiff(Fj, Vd(F)), PT);
    rec("derivative/act-J_m", relF(dualPart(Fj, 0, DOF), Jm), TOL);
    rec("derivative/act-J_p", relF(dualPart(Fj, 1, DIM), Jp), TOL); }
  // ---- functors through raw pointers (value and derivative) ----
  gCell = lt; gV = dropLin(lt);
  {
    manif::CeresManifoldFunctor<MonG> mf; manif::CeresLocalParameterizationFunctor<MonG> lp;
    // double
    double xs[REP], ds[DOF], out[REP], out2[REP], ymx[DOF];
    for (int k = 0; k < REP; ++k) xs[k] = X.coeffs()(k);
    for (int k = 0; k < DOF; ++k) ds[k] = t.coeffs()(k);
    mf.Plus(xs, ds, out); lp(xs, ds, out2);
    MonG want = X + t; double e = 0; for (int k = 0; k < REP; ++k) e = std::max({e, std::fabs(out[k] - want.coeffs()(k)), std::fabs(out2[k] - want.coeffs()(k))});
    rec("functor/Plus-value", e, 0);
    double ys[REP]; for (int k = 0; k < REP; ++k) ys[k] = Y.coeffs()(k);
    if (thRel < PI - 1e-2) { mf.Minus(xs, ys, ymx); MonT wm = X - Y; e = 0; for (int k = 0; k < DOF; ++k) e = std::max(e, std::fabs(ymx[k] - wm.coeffs()(k))); rec("functor/Minus-value", e, 0); }
    // Jet: d/d(delta) Minus(Plus(x, delta), x) at delta = 0 is the identity
    Jt xj[REP], dj[DOF], oj[REP], mj[DOF];
    for (int k = 0; k < REP; ++k) xj[k] = Jt(xs[k]);
    for (int k = 0; k < DOF; ++k) dj[k] = Jt(0.0, k);
    mf.Plus(xj, dj, oj); mf.Minus(oj, xj, mj);
    Mx Jd(DOF, DOF); for (int r2 = 0; r2 < DOF; ++r2) for (int k = 0; k < DOF; ++k) Jd(r2, k) = mj[r2].v[k];
    rec("functor/Minus(Plus(x,d),x)-derivative", relF(Jd, Mx::Identity(DOF, DOF)), TOL);
    lp(xj, dj, oj); double e2 = 0; for (int k = 0; k < REP; ++k) e2 = std::max(e2, std::fabs(oj[k].a - xs[k]));
    rec("functor/LocalParameterization-at-zero", e2, 4 * Sc<double>::u() * 1e3);
    // objective: || target (-) state || * w
    manif::CeresObjectiveFunctor<MonG> obj(Y, 2.5); double res1;
    if (thRel < PI - 1e-2) {
      obj(xs, &res1); double wantr = (Y - X).coeffs().norm() * 2.5;
      rec("functor/objective-value", std::fabs(res1 - wantr) / std::max(gInScale, wantr), PT);
      Jt rj; obj(xj, &rj); rec("functor/objective-jet-primal", std::fabs(rj.a - res1) / std::max(gInScale, std::fabs(res1)), PT);
    }
    // constraint: R (m - (future (-) past)); derivative w.r.t. a perturbation of the future state = -R * J_rminus_a
    if (thRel < PI - 1e-2) {
      manif::CeresConstraintFunctor<MonG> con(t); double rc[DOF];
      con(ys, xs, rc);   // past = Y, future = X
      MonT wr = t - (X - Y); e = 0; double sc = 1; for (int k = 0; k < DOF; ++k) { e = std::max(e, std::fabs(rc[k] - wr.coeffs()(k))); sc = std::max(sc, std::fabs(wr.coeffs()(k))); }
      rec("functor/constraint-value", e / sc, PT);
      GJ Xp = Xj.rplus(seedT(0)); Jt xpj[REP], ypj[REP], rcj[DOF];
      for (int k = 0; k < REP; ++k) { xpj[k] = Xp.coeffs()(k); ypj[k] = Jt(ys[k]); }
      con(ypj, xpj, rcj);
      X.rminus(Y, Ja, Jb);
      Mx Jc(DOF, DOF); for (int r2 = 0; r2 < DOF; ++r2) for (int k = 0; k < DOF; ++k) Jc(r2, k) = rcj[r2].v[k];
      rec("functor/constraint-derivative", relF(Jc, Mx(-Ja)), TOL);
      // with a measurement covariance C the residual is whitened: |r|^2 = w^T C^-1 w (Mahalanobis), whatever square root is used;
      // constructor form and setter form must agree, getters return what was set
      {
        typedef Eigen::Matrix<double, DOF, DOF> Cov;
        Cov A; for (int r2 = 0; r2 < DOF; ++r2) for (int k = 0; k < DOF; ++k) A(r2, k) = r.uni(-1, 1);
        Cov C0 = A * A.transpose() + Cov::Identity() * 0.5; C0 = ((C0 + C0.transpose()) * 0.5).eval();   // exactly symmetric: the setter keeps the upper triangle only
        const Cov C = C0;   // const: a non-const lvalue would select the forwarding constructor
        manif::CeresConstraintFunctor<MonG> c1(t, C), c2(t); c2.setMeasurementCovariance(C);
        double r1[DOF], r2v[DOF]; c1(ys, xs, r1); c2(ys, xs, r2v);
        Eigen::Matrix<double, DOF, 1> w; for (int k = 0; k < DOF; ++k) w(k) = wr.coeffs()(k);
        Eigen::Matrix<long double, DOF, DOF> Cl = C.template cast<long double>(); Eigen::Matrix<long double, DOF, 1> wl = w.template cast<long double>();
        long double maha = wl.dot(Cl.ldlt().solve(wl)), got = 0, got2 = 0, dif = 0;
        for (int k = 0; k < DOF; ++k) { got += (long double)r1[k] * r1[k]; got2 += (long double)r2v[k] * r2v[k]; dif = std::max(dif, (long double)std::fabs(r1[k] - r2v[k])); }
        double condC = C.norm() * C.inverse().norm();
        rec("functor/constraint-covariance-mahalanobis", (double)(std::fabs(got - maha) / std::max((long double)1, maha)), 64 * Sc<double>::u() * condC + PT);
        rec("functor/constraint-covariance-ctor-vs-setter", (double)dif, 0);
        bool gets = c2.getMeasurementCovariance() == C && c2.getMeasurement().coeffs() == t.coeffs();
        c2.setMeasurement(-t); gets = gets && c2.getMeasurement().coeffs() == (-t).coeffs();
        rec("functor/constraint-getters", gets ? 0 : 1, 0);
        obj.setTargetState(X); bool og = obj.getTargetState().coeffs() == X.coeffs();
        rec("functor/objective-getters", og ? 0 : 1, 0);
      }
    }
  }
  if (i < 2) LOG.sample(J().s("monitor", LOG.monitor).u("seed", a.seed).i("idx", i).s("cellX", lx).s("cellT", lt).raw("inputs", base.str()).str());
}
