// C01 / C07 exact half: the group law and the Lie-algebra identities hold EXACTLY when manif is instantiated over an exact scalar.
// The scalar (harness/rational.h) throws on any transcendental / rounding step, so it also observes that the algebraic paths stay algebraic.
#define MON_NAME "c01_exact"
#include "rational.h"
#include <manif/constants.h>
#include <manif/impl/traits.h>
namespace manif {
// the library's documented hook for non-fundamental scalars (as manif/ceres/ceres.h does for ceres::Jet): enables skew(Scalar)
namespace internal { template <> struct is_ad<Rat> : std::integral_constant<bool, true> {}; }
template <> struct Constants<Rat> { static const Rat eps; static const Rat eps_sqrt; static const Rat to_rad; static const Rat to_deg; };
const Rat Constants<Rat>::eps = Rat(1, (Rat::I)1 << 40);
const Rat Constants<Rat>::eps_sqrt = Rat(1, (Rat::I)1 << 20);
const Rat Constants<Rat>::to_rad = Rat(1, 57);
const Rat Constants<Rat>::to_deg = Rat(57);
}  // namespace manif
#include "groups.h"
#include <iostream>

typedef Rat S;
static const Args* gA;
static std::string gWhich;   // "C01" or "C07": which property the identity belongs to
static std::string gOnly;    // --arg which=C01|C07 restricts what is recorded (the monitor serves both checks)

static Rat smallRat(Prng& r, int num = 4, int den = 3) { return Rat((long long)(r.below(2 * num + 1) - num), (long long)(1 + r.below(den))); }

// rational element of group G built from the documented coefficient layout: stereographic unit quaternion / complex number
template <class G> G randElement(Prng& r) {
  const ref::Group& g = groupOf<G>();
  typename G::DataType c;
  for (int b = 0; b < g.nb(); ++b) {
    const ref::Elem& e = g.el[b]; int o = g.repOff[b];
    for (int k : e.linCoef) c(o + k) = smallRat(r);
    if (e.rot == 2) { Rat m = smallRat(r, 3, 3), den = Rat(1) + m * m; c(o + e.rotCoef) = (Rat(1) - m * m) / den; c(o + e.rotCoef + 1) = Rat(2) * m / den; }
    if (e.rot == 3) {
      Rat u[3] = {smallRat(r, 2, 2), smallRat(r, 2, 2), smallRat(r, 2, 2)}; Rat n2 = u[0] * u[0] + u[1] * u[1] + u[2] * u[2], den = Rat(1) + n2;
      Rat sgn = r.coin() ? Rat(1) : Rat(-1);   // both hemispheres
      for (int k = 0; k < 3; ++k) c(o + e.rotCoef + k) = sgn * Rat(2) * u[k] / den;
      c(o + e.rotCoef + 3) = sgn * (Rat(1) - n2) / den;
    }
  }
  return G(c);
}
template <class T> T randTangent(Prng& r) { typename T::DataType c; for (int k = 0; k < (int)c.size(); ++k) c(k) = smallRat(r, 5, 4); return T(c); }
template <class M> static bool isIdentity(const M& m) { for (int i = 0; i < m.rows(); ++i) for (int j = 0; j < m.cols(); ++j) if (!(m(i, j) == (i == j ? Rat(1) : Rat(0)))) return false; return true; }
template <class A, class B> static bool eq(const A& a, const B& b) { if (a.rows() != b.rows() || a.cols() != b.cols()) return false; for (int i = 0; i < a.rows(); ++i) for (int j = 0; j < a.cols(); ++j) if (!(a(i, j) == b(i, j))) return false; return true; }
template <class V> static std::string show(const V& v) { std::ostringstream o; for (int i = 0; i < (int)v.size(); ++i) o << (i ? " " : "") << v(i); return o.str(); }

template <class G> struct HomPoint;   // homogeneous embedding of a point, per documented matrix layout

template <class G> void check(const std::string& name, const std::string& what, bool ok, long long i, const std::string& detail) {
  if (!gOnly.empty() && gOnly != gWhich) return;
  LOG.cell("exact:" + what + "/" + name, ok ? 0 : 1);
  if (!ok) LOG.viol(gWhich + "-not-exact/" + what + "/" + name, 1, J().s("monitor", LOG.monitor).u("seed", gA->seed).i("idx", i).s("detail", detail).str());
}

template <class G, class T> void adjConj(const std::string& name, const G& X, const G& Xi, const T& a, long long i, const std::string& dt, std::true_type) {
  auto TX = X.transform(), TXi = Xi.transform();
  typename T::LieAlg conj = TX * a.hat() * TXi;
  check<G>(name, "Adj*s=vee(X*hat(s)*X^-1)", eq(typename T::DataType(X.adj() * a.coeffs()), T::Vee(conj).coeffs()), i, dt);
}
template <class G, class T> void adjConj(const std::string&, const G&, const G&, const T&, long long, const std::string&, std::false_type) {}

template <class G, bool HasTransform> struct GroupLaw {
  static void run(const std::string& name, Prng& r, long long i) {
    typedef typename G::Tangent T;
    const ref::Group& g = groupOf<G>();
    gWhich = "C01";
    try {
      G X = randElement<G>(r), Y = randElement<G>(r), Z = randElement<G>(r);
      std::string d = "X=[" + show(X.coeffs()) + "] Y=[" + show(Y.coeffs()) + "]";
      G XY = X.compose(Y), Xi = X.inverse(), I = G::Identity();
      if (HasTransform) {
        auto TX = X.transform(), TY = Y.transform();
        check<G>(name, "compose=matrix-product", eq(XY.transform(), TX * TY), i, d);
        check<G>(name, "inverse-two-sided", isIdentity(Xi.transform() * TX) && isIdentity(TX * Xi.transform()), i, d);
        check<G>(name, "identity-is-identity-matrix", isIdentity(I.transform()), i, d);
        // act = matrix applied to the point in homogeneous coordinates
        typename G::Vector p; for (int k = 0; k < (int)p.size(); ++k) p(k) = smallRat(r);
        Eigen::Matrix<Rat, -1, 1> ph = Eigen::Matrix<Rat, -1, 1>::Zero(TX.rows());
        // embedding per block from the reference descriptors (typed-in layouts)
        Eigen::Matrix<Rat, -1, 1> want(g.dim);
        for (int b = 0; b < g.nb(); ++b) {
          const ref::Elem& e = g.el[b]; int to = g.traOff[b], po = g.dimOff[b];
          Eigen::Matrix<Rat, -1, 1> h = Eigen::Matrix<Rat, -1, 1>::Zero(e.tra);
          for (int k = 0; k < e.dim; ++k) h(k) = p(po + k);
          switch (e.kind) { case ref::K_SO2: case ref::K_SO3: break; case ref::K_SE2: h(2) = Rat(1); break; case ref::K_SE3: h(3) = Rat(1); break;
            case ref::K_SE23: h(3) = Rat(1); break; case ref::K_SGAL3: h(4) = Rat(1); break; case ref::K_RN: h(e.dof) = Rat(1); break; }
          Eigen::Matrix<Rat, -1, -1> blk = TX.block(to, to, e.tra, e.tra);
          Eigen::Matrix<Rat, -1, 1> q = blk * h;
          for (int k = 0; k < e.dim; ++k) want(po + k) = q(k);
        }
        check<G>(name, "act=matrix*point", eq(X.act(p), want), i, d);
      }
      check<G>(name, "inverse-cancels(coefficients)", eq(Xi.compose(X).transform(), I.transform()) || !HasTransform, i, d);
      check<G>(name, "associative(coefficients)", eq(XY.compose(Z).coeffs(), X.compose(Y.compose(Z)).coeffs()), i, d);
      check<G>(name, "identity-neutral(coefficients)", eq(X.compose(I).coeffs(), X.coeffs()) && eq(I.compose(X).coeffs(), X.coeffs()), i, d);
      check<G>(name, "inverse-involution(coefficients)", eq(Xi.inverse().coeffs(), X.coeffs()), i, d);
      check<G>(name, "between=inverse*compose", eq(X.between(Y).coeffs(), Xi.compose(Y).coeffs()), i, d);
      // adjoint representation is a homomorphism, exactly
      check<G>(name, "Adj(XY)=Adj(X)Adj(Y)", eq(XY.adj(), X.adj() * Y.adj()), i, d);
      // C07: Lie algebra structure
      gWhich = "C07";
      T a = randTangent<T>(r), b = randTangent<T>(r), c = randTangent<T>(r);
      std::string dt = "a=[" + show(a.coeffs()) + "] b=[" + show(b.coeffs()) + "]";
      typename T::LieAlg H = T::LieAlg::Zero(); for (int k = 0; k < T::DoF; ++k) H += a.coeffs()(k) * T::Generator(k);
      check<G>(name, "hat=sum-of-generators", eq(a.hat(), H), i, dt);
      check<G>(name, "vee(hat)=id", eq(T::Vee(a.hat()).coeffs(), a.coeffs()), i, dt);
      check<G>(name, "bracket=commutator", eq(T::Bracket(a, b).hat(), a.hat() * b.hat() - b.hat() * a.hat()), i, dt);
      check<G>(name, "bracket-antisymmetric", eq(T::Bracket(a, b).coeffs(), (-T::Bracket(b, a)).coeffs()), i, dt);
      { typename T::DataType jac = T::Bracket(a, T::Bracket(b, c)).coeffs() + T::Bracket(b, T::Bracket(c, a)).coeffs() + T::Bracket(c, T::Bracket(a, b)).coeffs();
        bool z = true; for (int k = 0; k < T::DoF; ++k) z = z && jac(k) == Rat(0); check<G>(name, "jacobi-identity", z, i, dt); }
      { Rat fro = (a.hat().transpose() * b.hat()).trace(); check<G>(name, "inner=frobenius", a.inner(b) == fro && a.inner(b) == b.inner(a), i, dt);
        check<G>(name, "squaredWeightedNorm=inner(a,a)", a.squaredWeightedNorm() == a.inner(a), i, dt); }
      check<G>(name, "smallAdj*b=bracket", eq(typename T::DataType(a.smallAdj() * b.coeffs()), T::Bracket(a, b).coeffs()), i, dt);
      // adj(X) s = vee(X s^ X^-1), exactly (groups whose transform() is the matrix the algebra acts on)
      adjConj(name, X, Xi, a, i, dt, std::integral_constant<bool, HasTransform && (int)T::LieAlg::RowsAtCompileTime == (int)G::Transformation::RowsAtCompileTime>());
      LOG.count("exact-cases/" + name);
    } catch (const RatOverflow&) { LOG.count("inconclusive-overflow/" + name); }
    catch (const InexactOp& e) { LOG.viol(gWhich + "-inexact-operation-on-algebraic-path/" + name, 1, J().s("monitor", LOG.monitor).u("seed", gA->seed).i("idx", i).s("what", e.what()).str()); }
  }
};

int main(int argc, char** argv) {
  Args a(argc, argv); gA = &a; LOG.monitor = MON_NAME; gOnly = a.get("which", "");
  using namespace manif;
  long long lo = 0, hi = a.n; if (a.only >= 0) { lo = a.only; hi = a.only + 1; }
  for (long long i = lo; i < hi; ++i) {
    Prng r(a.seed, (uint64_t)i);
    GroupLaw<SE2<Rat>, true>::run("SE2", r, i);
    GroupLaw<SO3<Rat>, true>::run("SO3", r, i);
    GroupLaw<SE3<Rat>, true>::run("SE3", r, i);
    GroupLaw<SE_2_3<Rat>, true>::run("SE_2_3", r, i);
    GroupLaw<SGal3<Rat>, true>::run("SGal3", r, i);
    GroupLaw<Rn<Rat, 3>, true>::run("R3", r, i);
    GroupLaw<SO2<Rat>, false>::run("SO2", r, i);   // SO2::rotation()/transform() go through atan2: coefficients only
    GroupLaw<Bundle<Rat, SE2, SO3, R3>, true>::run("Bundle<SE2,SO3,R3>", r, i);
    if (i % 10 == 0) GroupLaw<Bundle<Rat, SE_2_3, SGal3, SE3>, true>::run("Bundle<SE_2_3,SGal3,SE3>", r, i);   // 25x25 rational products are slow
  }
  LOG.sample(J().s("monitor", LOG.monitor).u("seed", a.seed).s("note", "rational unit quaternions by stereographic projection of small-integer fractions, both hemispheres; every comparison is ==").str());
  LOG.finish();
  return 0;
}
