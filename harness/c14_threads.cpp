// C14 monitor: the const API is safe to use concurrently, including the very first use of every function-local static.
// Built with -fsanitize=thread.  One launch = one first-use schedule; the driver launches the binary many times.
#include <manif/manif.h>
#include <manif/algorithms/interpolation.h>
#include <manif/algorithms/average.h>
#include <manif/algorithms/decasteljau.h>
#include <atomic>
#include <thread>
#include <vector>
#include <functional>
#include <algorithm>
#include <cstring>
#include <sched.h>
#include <time.h>
#include "prng.h"
#include "eventlog.h"

using namespace manif;
typedef std::vector<double> Dig;

template <class M> static void put(Dig& d, const Eigen::MatrixBase<M>& m) { for (int j = 0; j < m.cols(); ++j) for (int i = 0; i < m.rows(); ++i) d.push_back((double)m(i, j)); }

// shared const state of one group type
template <class G> struct Shared {
  typedef typename G::Tangent T;
  G X, Y; T t, s; typename G::Vector p; std::vector<G> cloud; typename G::DataType buf;
  Shared() {
    srand(4242);
    t = T::Random() * typename G::Scalar(0.4); s = T::Random() * typename G::Scalar(0.3);
    X = (T::Random() * typename G::Scalar(0.5)).exp(); Y = X.rplus(s); p = G::Vector::Random(); buf = Y.coeffs();
    cloud.push_back(X); cloud.push_back(Y); cloud.push_back(X.rplus(t * typename G::Scalar(0.5)));
  }
};

static std::atomic<int> TICKET{0};
static std::atomic<unsigned long long> SIG{0};   // order-sensitive hash of (static id, arrival rank, thread)
static void arrive(int staticId, int tid) {
  int k = TICKET.fetch_add(1, std::memory_order_relaxed);
  unsigned long long h = (unsigned long long)(staticId * 1000003 + tid) * 0x9e3779b97f4a7c15ULL;
  // only the first arrival per static matters for "who initialises"; fold rank into the signature
  SIG.fetch_add(h * (unsigned long long)(k + 1), std::memory_order_relaxed);
}

// the first-use phase: every function-local static of the group, then the const API
template <class G> static void firstUse(const Shared<G>&, int base, int tid, Dig& d) {
  typedef typename G::Tangent T;
  arrive(base + 0, tid); put(d, G::Identity().coeffs());
  arrive(base + 1, tid); put(d, T::Zero().coeffs());
  arrive(base + 2, tid); { G z; z.setIdentity(); put(d, z.coeffs()); }
  for (int i = 0; i < T::DoF; ++i) { arrive(base + 3, tid); put(d, T::Generator(i)); }
  arrive(base + 4, tid); put(d, T::InnerWeights());
}
template <class G> static void constApi(const Shared<G>& S, Dig& d, Prng& r, bool yield) {
  typedef typename G::Tangent T; typedef typename G::Jacobian Jac;
  const Eigen::Map<const G> V(S.buf.data());
  std::vector<std::function<void()>> ops;
  Jac Ja, Jb;
  std::vector<Dig> parts(34);
  int k = 0;
  auto add = [&](std::function<void(Dig&)> f) { int idx = k++; ops.push_back([&parts, idx, f]() { f(parts[idx]); }); };
  add([&](Dig& o) { put(o, S.t.exp().coeffs()); });
  add([&](Dig& o) { put(o, S.X.log().coeffs()); });
  add([&](Dig& o) { put(o, S.X.compose(S.Y).coeffs()); });
  add([&](Dig& o) { put(o, S.X.inverse().coeffs()); });
  add([&](Dig& o) { put(o, S.X.act(S.p)); });
  add([&](Dig& o) { put(o, S.X.adj()); });
  add([&](Dig& o) { put(o, S.t.rjac()); put(o, S.t.ljac()); });
  add([&](Dig& o) { put(o, S.t.rjacinv()); put(o, S.t.ljacinv()); });
  add([&](Dig& o) { put(o, S.t.smallAdj()); put(o, S.t.hat()); });
  add([&](Dig& o) { o.push_back((double)S.t.inner(S.s)); o.push_back((double)S.t.weightedNorm()); });
  add([&](Dig& o) { o.push_back(S.X.isApprox(S.Y) ? 1 : 0); o.push_back((S.X == S.X) ? 1 : 0); });
  add([&](Dig& o) { put(o, interpolate(S.X, S.Y, typename G::Scalar(0.3)).coeffs()); });
  add([&](Dig& o) { put(o, interpolate(S.X, S.Y, typename G::Scalar(0.6), INTERP_METHOD::CNSMOOTH, S.t, S.s).coeffs()); });
  add([&](Dig& o) { put(o, average_biinvariant(S.cloud).coeffs()); });
  add([&](Dig& o) { put(o, average_frechet_left(S.cloud).coeffs()); });
  add([&](Dig& o) { Jac A, B; put(o, S.X.rminus(S.Y, A, B).coeffs()); put(o, A); put(o, B); });
  add([&](Dig& o) { Jac A, B; put(o, S.X.lminus(S.Y, A, B).coeffs()); put(o, A); put(o, B); });
  add([&](Dig& o) { Jac A, B; put(o, S.X.rplus(S.t, A, B).coeffs()); put(o, A); put(o, B); });
  add([&](Dig& o) { Jac A, B; put(o, S.X.between(V, A, B).coeffs()); put(o, A); put(o, B); });
  add([&](Dig& o) { put(o, V.compose(S.X).coeffs()); put(o, V.log().coeffs()); put(o, V.adj()); });
  add([&](Dig& o) { put(o, T::Bracket(S.t, S.s).coeffs()); put(o, S.t.generator(0)); put(o, S.t.innerWeights()); });
  add([&](Dig& o) { put(o, G::Identity().coeffs()); put(o, T::Zero().coeffs()); put(o, T::Generator(T::DoF - 1)); });
  // the Jacobian-returning forms of the elementary operations, the remaining averaging / interpolation routines, curve fitting
  add([&](Dig& o) { Jac A; put(o, S.t.exp(A).coeffs()); put(o, A); });
  add([&](Dig& o) { Jac A; put(o, S.X.log(A).coeffs()); put(o, A); });
  add([&](Dig& o) { Jac A; put(o, S.X.inverse(A).coeffs()); put(o, A); });
  add([&](Dig& o) { Jac A, B; put(o, S.X.compose(S.Y, A, B).coeffs()); put(o, A); put(o, B); });
  add([&](Dig& o) { Jac A, B; put(o, S.X.lplus(S.t, A, B).coeffs()); put(o, A); put(o, B); });
  add([&](Dig& o) { Eigen::Matrix<typename G::Scalar, G::Dim, G::DoF> A; Eigen::Matrix<typename G::Scalar, G::Dim, G::Dim> B; put(o, S.X.act(S.p, A, B)); put(o, A); put(o, B); });
  add([&](Dig& o) { put(o, average(S.cloud).coeffs()); put(o, average_frechet_right(S.cloud).coeffs()); });
  add([&](Dig& o) { put(o, interpolate(S.X, S.Y, typename G::Scalar(0.4), INTERP_METHOD::CUBIC, S.t, S.s).coeffs()); o.push_back((double)smoothing_phi(0.3, 3)); });
  add([&](Dig& o) { auto c = decasteljau(S.cloud, 3, 2, true); o.push_back((double)c.size()); put(o, c.back().coeffs()); });
  add([&](Dig& o) { put(o, S.X.transform()); put(o, (S.t + S.s).coeffs()); put(o, (S.X * S.Y).coeffs()); put(o, (S.X + S.t).coeffs()); put(o, (S.X - S.Y).coeffs()); });
  add([&](Dig& o) { put(o, S.X.template cast<float>().coeffs().template cast<double>().eval()); put(o, S.t.template cast<float>().coeffs().template cast<double>().eval()); });
  if ((int)ops.size() > (int)parts.size()) { fprintf(stderr, "parts too small\n"); abort(); }
  std::vector<int> order(ops.size()); for (size_t i = 0; i < order.size(); ++i) order[i] = (int)i;
  for (int i = (int)order.size() - 1; i > 0; --i) std::swap(order[i], order[r.below(i + 1)]);
  for (int idx : order) {
    ops[idx]();
    if (yield && r.coin(0.3)) { if (r.coin(0.5)) sched_yield(); else { struct timespec ts = {0, (long)r.below(20000)}; nanosleep(&ts, 0); } }
  }
  for (auto& p : parts) d.insert(d.end(), p.begin(), p.end());  // canonical order
}

struct All {
  Shared<SO2d> so2; Shared<SE2d> se2; Shared<SO3d> so3; Shared<SE3d> se3; Shared<SE_2_3d> se23; Shared<SGal3d> sgal3; Shared<R3d> r3; Shared<R1d> r1;
  Shared<Bundle<double, SE2, SO3, R2>> bun; Shared<SO3f> so3f; Shared<SE2f> se2f;
};

template <class G> static void groupWork(const Shared<G>& S, int base, int tid, Dig& d, Prng& r, bool yield, int rounds) {
  firstUse(S, base, tid, d);
  Dig first;
  for (int k = 0; k < rounds; ++k) {
    Dig one; constApi(S, one, r, yield);
    if (k == 0) { first = one; d.insert(d.end(), one.begin(), one.end()); }
    else d.push_back(one.size() == first.size() && std::memcmp(one.data(), first.data(), one.size() * sizeof(double)) == 0 ? 0.0 : 1.0);  // every round reproduces round 0
  }
}

static void worker(const All& A, int tid, uint64_t seed, bool yield, int rounds, std::vector<Dig>& out) {
  Prng r(seed, (uint64_t)tid + 1);
  std::vector<std::function<void(Dig&)>> gs = {
    [&](Dig& d) { groupWork(A.so2, 0, tid, d, r, yield, rounds); }, [&](Dig& d) { groupWork(A.se2, 10, tid, d, r, yield, rounds); },
    [&](Dig& d) { groupWork(A.so3, 20, tid, d, r, yield, rounds); }, [&](Dig& d) { groupWork(A.se3, 30, tid, d, r, yield, rounds); },
    [&](Dig& d) { groupWork(A.se23, 40, tid, d, r, yield, rounds); }, [&](Dig& d) { groupWork(A.sgal3, 50, tid, d, r, yield, rounds); },
    [&](Dig& d) { groupWork(A.r3, 60, tid, d, r, yield, rounds); }, [&](Dig& d) { groupWork(A.r1, 70, tid, d, r, yield, rounds); },
    [&](Dig& d) { groupWork(A.bun, 80, tid, d, r, yield, rounds); }, [&](Dig& d) { groupWork(A.so3f, 90, tid, d, r, yield, rounds); },
    [&](Dig& d) { groupWork(A.se2f, 100, tid, d, r, yield, rounds); }};
  std::vector<int> order(gs.size()); for (size_t i = 0; i < order.size(); ++i) order[i] = (int)i;
  if (tid >= 0) for (int i = (int)order.size() - 1; i > 0; --i) std::swap(order[i], order[r.below(i + 1)]);
  out.assign(gs.size(), Dig());
  for (int g : order) gs[g](out[g]);
}

int main(int argc, char** argv) {
  Args a(argc, argv);
  LOG.monitor = "c14_threads";
  const int nthreads = atoi(a.get("threads", "8").c_str());
  const int rounds = atoi(a.get("rounds", "3").c_str());
  const bool yield = a.get("yield", "1") == "1";
  // shared const objects are built without touching any manif static helper (Random / exp / rplus only)
  const All A;
  std::atomic<int> ready{0}; std::atomic<bool> go{false};
  std::vector<std::vector<Dig>> res(nthreads);
  std::vector<std::thread> th;
  for (int t = 0; t < nthreads; ++t)
    th.emplace_back([&, t]() {
      ready.fetch_add(1);
      while (!go.load(std::memory_order_acquire)) { /* spin: release all threads at once */ }
      worker(A, t, a.seed, yield, rounds, res[t]);
    });
  while (ready.load() < nthreads) sched_yield();
  go.store(true, std::memory_order_release);
  for (auto& t : th) t.join();
  // single-threaded reference, computed after the concurrent phase (so that first use really happened concurrently)
  std::vector<Dig> refd; worker(A, -1, a.seed, false, rounds, refd);
  static const char* GNAME[] = {"SO2", "SE2", "SO3", "SE3", "SE_2_3", "SGal3", "R3", "R1", "Bundle<SE2,SO3,R2>", "SO3f", "SE2f"};
  for (int t = 0; t < nthreads; ++t)
    for (size_t gidx = 0; gidx < refd.size(); ++gidx) {
      bool same = res[t][gidx].size() == refd[gidx].size() && std::memcmp(res[t][gidx].data(), refd[gidx].data(), refd[gidx].size() * sizeof(double)) == 0;
      LOG.cell(std::string("thread-vs-single/") + GNAME[gidx] + "/threads=" + std::to_string(nthreads), same ? 0 : 1);
      if (!same) LOG.viol(std::string("value-differs-from-single-thread/") + GNAME[gidx], 1, J().u("seed", a.seed).i("threads", nthreads).i("thread", t).str());
    }
  LOG.count("launches"); LOG.count("threads-run", nthreads);
  { char b[64]; snprintf(b, sizeof b, "%016llx", SIG.load()); LOG.sample(J().u("seed", a.seed).i("threads", nthreads).s("first_use_signature", b).i("values_per_thread", (long long)refd[3].size()).str()); LOG.count(std::string("sig/") + b); }
  LOG.finish();
  return 0;
}
