// C07 monitor: hat, vee, generators, bracket, inner product (floating-point half; exact half in c07_exact.cpp).
#define MON_NAME "c07_algebra"
#include "mon.h"
#include <climits>
using ref::VecL; using ref::BigL; using ref::LD;

static double U() { return Sc<MonS>::u(); }

void runOnce(const Args&) {
  const ref::Group& g = RG();
  const std::string gn = GN();
  // every generator index in range: entry-wise exact; out of range: must throw manif::invalid_argument
  for (int i = 0; i < g.dof; ++i) {
    BigL Gi = toLM(MonT::Generator(i)), Gr = ref::ggen(g, i);
    bool same = Gi.rows() == Gr.rows() && (Gi - Gr).cwiseAbs().maxCoeff() == 0;
    LOG.cell("generator/" + gn + "/i=" + std::to_string(i), same ? 0 : 1);
    if (!same) LOG.viol("generator/" + gn + "/i=" + std::to_string(i), 1, J().i("i", i).str());
    MonT t = MonT::Zero();
    BigL Gm = toLM(t.generator(i));
    if ((Gm - Gr).cwiseAbs().maxCoeff() != 0) LOG.viol("generator-member/" + gn + "/i=" + std::to_string(i), 1, J().i("i", i).str());
  }
  const long long bad[] = {-1, g.dof, g.dof + 1, INT_MAX, INT_MIN, 1000, -g.dof};
  for (long long bi : bad) {
    std::string out = "returned";
    try { MonT::Generator((int)bi); }
    catch (const manif::invalid_argument&) { out = "invalid_argument"; }
    catch (const std::exception& e) { out = std::string("other exception: ") + e.what(); }
    LOG.cell("generator-out-of-range/" + gn + "/i=" + std::to_string(bi), out == "invalid_argument" ? 0 : 1);
    if (out != "invalid_argument") LOG.viol("generator-out-of-range/" + gn, 1, J().i("i", bi).s("outcome", out).str());
  }
  // InnerWeights: symmetric, Gram matrix of the reference generators (Frobenius), positive definite
  BigL W = toLM(MonT::InnerWeights()), Wr(g.dof, g.dof);
  for (int i = 0; i < g.dof; ++i) for (int j = 0; j < g.dof; ++j) Wr(i, j) = (ref::ggen(g, i).transpose() * ref::ggen(g, j)).trace();
  double e = (double)(W - Wr).cwiseAbs().maxCoeff();
  LOG.cell("innerweights-gram/" + gn, e);
  if (!(e == 0)) LOG.viol("innerweights-gram/" + gn, e, J().d("err", e).str());
  if ((W - W.transpose()).cwiseAbs().maxCoeff() != 0) LOG.viol("innerweights-symmetric/" + gn, 1, "{}");
  for (int k = 1; k <= g.dof; ++k) {  // leading principal minors > 0
    LD det = W.topLeftCorner(k, k).determinant();
    if (!(det > 0)) LOG.viol("innerweights-posdef/" + gn, (double)det, J().i("minor", k).d("det", det).str());
  }
  MonT z = MonT::Zero();
  if (toLM(z.innerWeights()) != W) LOG.viol("innerweights-member/" + gn, 1, "{}");
}

void runCase(long long i, Prng& r, const Args& a) {
  const ref::Group& g = RG();
  GenOpt o; o.thetaMax = 6; o.beyondPi = true; o.linMax = 1e6;
  std::string la, lb, lc;
  std::vector<MonS> av = genTangent<MonS>(g, r, o, la), bv = genTangent<MonS>(g, r, o, lb), cv = genTangent<MonS>(g, r, o, lc);
  if (i % 5 == 0) {  // small integers: every identity below is then exact in floating point
    for (auto* v : {&av, &bv, &cv}) for (auto& x : *v) x = (MonS)(r.below(17) - 8);
    la = lb = lc = "small-integers";
  }
  MonT ta = tangentFrom<MonT>(av), tb = tangentFrom<MonT>(bv), tc = tangentFrom<MonT>(cv);
  VecL al = toL(ta.coeffs()), bl = toL(tb.coeffs()), cl = toL(tc.coeffs());
  const bool exact = la == "small-integers";
  const std::string ck = GN() + "/" + (exact ? la : dropLin(la));
  J base; base.vec("a", av).vec("b", bv).vec("c", cv);
  auto rec = [&](const std::string& what, double e, double tol) {
    LOG.cell(what + "/" + ck, e); LOG.maxi(what + "-err/" + GN(), e);
    if (!(e <= tol)) LOG.viol(what + "/" + ck, e, caseJ(a, i).d("err", e).d("tol", tol).raw("inputs", base.str()).str());
  };
  LD sa = std::max((LD)1, al.cwiseAbs().maxCoeff()), sb = std::max((LD)1, bl.cwiseAbs().maxCoeff()), sc = std::max((LD)1, cl.cwiseAbs().maxCoeff());
  BigL Ha = toLM(ta.hat()), Hb = toLM(tb.hat());
  // hat = sum t_i G_i exactly; vee(hat) = t exactly
  rec("hat", (double)(Ha - ref::ghat(g, al)).cwiseAbs().maxCoeff(), 0);
  {
    MonT v = MonT::Vee(ta.hat()); double e = 0;
    for (int k = 0; k < g.dof; ++k) e = std::max(e, std::fabs((double)v.coeffs()(k) - (double)ta.coeffs()(k)));
    rec("vee(hat)", e, 0);
    MonT w; w.setVee(ta.hat()); bool same = true; for (int k = 0; k < g.dof; ++k) same = same && w.coeffs()(k) == v.coeffs()(k);
    if (!same) LOG.viol("setVee-vs-Vee/" + ck, 1, caseJ(a, i).raw("inputs", base.str()).str());
  }
  // linearity of hat: hat(a + 2b) = hat(a) + 2 hat(b)
  {
    MonT s = ta + tb * MonS(2);
    BigL lhs = toLM(s.hat()), rhs = Ha + 2 * Hb;
    rec("hat-linear", (double)((lhs - rhs).cwiseAbs().maxCoeff() / (sa + 2 * sb)), exact ? 0 : 4 * U());
  }
  // bracket: hat([a,b]) = [hat a, hat b]; antisymmetry; Jacobi; bilinearity
  {
    MonT ab = MonT::Bracket(ta, tb), ba = MonT::Bracket(tb, ta), abm = ta.bracket(tb);
    BigL comm = ref::ghat(g, al) * ref::ghat(g, bl) - ref::ghat(g, bl) * ref::ghat(g, al);
    rec("bracket=commutator", (double)((toLM(ab.hat()) - comm).cwiseAbs().maxCoeff() / (sa * sb)), exact ? 0 : 16 * U());
    double e = 0; for (int k = 0; k < g.dof; ++k) e = std::max(e, std::fabs((double)ab.coeffs()(k) + (double)ba.coeffs()(k)));
    rec("bracket-antisymmetric", e / (double)(sa * sb), exact ? 0 : 16 * U());
    bool same = true; for (int k = 0; k < g.dof; ++k) same = same && ab.coeffs()(k) == abm.coeffs()(k);
    if (!same) LOG.viol("Bracket-vs-bracket/" + ck, 1, caseJ(a, i).raw("inputs", base.str()).str());
    MonT j1 = MonT::Bracket(ta, MonT::Bracket(tb, tc)), j2 = MonT::Bracket(tb, MonT::Bracket(tc, ta)), j3 = MonT::Bracket(tc, MonT::Bracket(ta, tb));
    e = 0; for (int k = 0; k < g.dof; ++k) e = std::max(e, std::fabs((double)j1.coeffs()(k) + (double)j2.coeffs()(k) + (double)j3.coeffs()(k)));
    rec("jacobi", e / (double)(sa * sb * sc), exact ? 0 : 64 * U());
    MonT lin = MonT::Bracket(ta + tc * MonS(2), tb), l1 = MonT::Bracket(tc, tb);
    e = 0; for (int k = 0; k < g.dof; ++k) e = std::max(e, std::fabs((double)lin.coeffs()(k) - ((double)ab.coeffs()(k) + 2 * (double)l1.coeffs()(k))));
    rec("bracket-bilinear", e / (double)((sa + 2 * sc) * sb), exact ? 0 : 32 * U());
    // smallAdj * b is the same vector
    typename MonT::DataType sv = ta.smallAdj() * tb.coeffs();
    e = 0; for (int k = 0; k < g.dof; ++k) e = std::max(e, std::fabs((double)sv(k) - (double)ab.coeffs()(k)));
    rec("smallAdj*b=bracket", e / (double)(sa * sb), 0);
  }
  // inner product = Frobenius inner product of the hats; weightedNorm is its induced norm
  {
    LD fro = (ref::ghat(g, al).transpose() * ref::ghat(g, bl)).trace();
    double e = (double)(std::fabs((LD)ta.inner(tb) - fro) / (sa * sb * g.dof));
    rec("inner=frobenius", e, exact ? 0 : 16 * U());
    rec("inner-symmetric", std::fabs((double)ta.inner(tb) - (double)tb.inner(ta)) / (double)(sa * sb * g.dof), exact ? 0 : 16 * U());
    LD n2 = (ref::ghat(g, al).transpose() * ref::ghat(g, al)).trace();
    rec("squaredWeightedNorm", (double)(std::fabs((LD)ta.squaredWeightedNorm() - n2) / (sa * sa * g.dof)), exact ? 0 : 16 * U());
    rec("weightedNorm", (double)(std::fabs((LD)ta.weightedNorm() - std::sqrt(n2)) / (sa * g.dof)), 16 * U());
  }
  if (i < 2) LOG.sample(caseJ(a, i).s("cell", la).vecd("a", av).vecd("b", bv).str());
}
