// Deterministic PRNG for all monitors (xoshiro256** seeded through splitmix64).
// Every case i of a run with seed s gets its own stream Prng(s, i), so a single case
// can be replayed without re-generating its predecessors.
#pragma once
#include <cstdint>
#include <cmath>

struct Prng {
  uint64_t s[4];
  static uint64_t splitmix(uint64_t& x) {
    uint64_t z = (x += 0x9e3779b97f4a7c15ULL);
    z = (z ^ (z >> 30)) * 0xbf58476d1ce4e5b9ULL;
    z = (z ^ (z >> 27)) * 0x94d049bb133111ebULL;
    return z ^ (z >> 31);
  }
  explicit Prng(uint64_t seed = 1, uint64_t stream = 0) {
    uint64_t x = seed * 0x9e3779b97f4a7c15ULL + stream * 0xd1342543de82ef95ULL + 0x2545f4914f6cdd1dULL;
    for (int i = 0; i < 4; ++i) s[i] = splitmix(x);
  }
  static uint64_t rotl(uint64_t x, int k) { return (x << k) | (x >> (64 - k)); }
  uint64_t next() {
    const uint64_t r = rotl(s[1] * 5, 7) * 9, t = s[1] << 17;
    s[2] ^= s[0]; s[3] ^= s[1]; s[1] ^= s[2]; s[0] ^= s[3]; s[2] ^= t; s[3] = rotl(s[3], 45);
    return r;
  }
  // uniform in [0,1)
  double u01() { return (next() >> 11) * (1.0 / 9007199254740992.0); }
  double uni(double a, double b) { return a + (b - a) * u01(); }
  // log-uniform in [a,b], a,b>0
  double logu(double a, double b) { return std::exp(uni(std::log(a), std::log(b))); }
  int below(int n) { return (int)(next() % (uint64_t)n); }
  bool coin(double p = 0.5) { return u01() < p; }
  double sign() { return coin() ? 1.0 : -1.0; }
  double gauss() {  // Box-Muller
    double u = 1.0 - u01(), v = u01();
    return std::sqrt(-2.0 * std::log(u)) * std::cos(6.283185307179586 * v);
  }
};
