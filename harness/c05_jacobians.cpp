// C05 monitor: every analytic Jacobian is the derivative of the operation on the tangent space:
// f(X (+) d) = f(X) (+) J d + o(d), evaluated by 4th-order central differences on the reference model.
#define MON_NAME "c05_jacobians"
#include "mon.h"
#include <iostream>

static const double PI = 3.14159265358979323846;
typedef typename MonG::Jacobian MJ;
using ref::VecL; using ref::GM; using ref::BigL; using ref::LD;

static double relF(const BigL& A, const BigL& B) { return (double)((A - B).norm() / (1 + B.norm())); }
void runOnce(const Args&) {}

struct Ctx {
  const Args& a; long long i; std::string cellkey, vkey; bool nontriv; double tol; double cond_allow = 0;
  std::string ops;
  J base;
  Ctx(const Args& a_, long long i_) : a(a_), i(i_), nontriv(true), tol(1e-6) {}
  // oracle(h) = model Jacobian by central differences of step h.  When manif and the oracle disagree, the oracle is re-evaluated
  // at h/2 and 2h: if it disagrees with itself by more than a tenth of the tolerance (round-off of huge common-mode coordinates
  // close to the cut locus) the sample is counted as "oracle-unresolved" and not judged; a genuine defect leaves the oracle stable.
  void rec(const std::string& op, const BigL& Jm, LD h, const std::function<BigL(LD)>& oracle) {
    BigL Jr_ = oracle(h);
    double e = Jm.allFinite() ? relF(Jm, Jr_) : INFINITY;
    if (LOG.verbose) { std::cerr << "---- " << op << " err=" << e << "\nmanif J=\n" << Jm.cast<double>() << "\nmodel J=\n" << Jr_.cast<double>() << "\ndiff=\n" << (Jm - Jr_).cast<double>() << "\n"; }
    const double tol = this->tol + cond_allow;
    if (!(e <= tol) && Jm.allFinite()) {
      BigL J2 = oracle(h / 2), J3 = oracle(2 * h);
      double self = std::max(relF(J2, Jr_), relF(J3, Jr_));
      if (self > 0.1 * tol) {
        // try to resolve with the most self-consistent pair
        LOG.count("oracle-unresolved/" + op + "/" + GN());
        LOG.cell(op + "-oracle-unresolved/" + cellkey, self, nontriv);
        return;
      }
    }
    LOG.cell(op + "/" + cellkey, e, nontriv);
    LOG.maxi(op + "-err/" + GN(), e);
    if (!(e <= tol)) {
      J j; j.s("monitor", LOG.monitor).u("seed", a.seed).i("idx", i).s("group", GN()).s("op", op).d("err", e).d("tol", tol).raw("inputs", base.str());
      LOG.viol(op + "/" + vkey, e, j.str());
    }
  }
};

void runCase(long long i, Prng& r, const Args& a) {
  const ref::Group& g = RG();
  const bool dbl = sizeof(MonS) == 8;
  GenOpt o; o.thetaMax = PI - 1e-6; o.nearPiMin = 1e-6; o.linMax = dbl ? 1e6 : 1e2;  // float: differences of 1e6-sized coordinates carry no digits
  if (!dbl) { o.thetaMax = PI - 1e-2; o.nearPiMin = 1e-2; }
  std::string lx, lt, ly;
  MonG X = groupFrom<MonG>(genElement<MonS>(g, r, o, lx));
  std::vector<MonS> tv = genTangent<MonS>(g, r, o, lt);
  MonT t = tangentFrom<MonT>(tv);
  // second element: independent, or at a stratified relative transform from X
  MonG Y;
  bool rel = r.coin(0.6);
  if (rel) { Y = X.compose((-t).exp()); ly = "rel:" + lt; }   // Y^-1 X = exp(t)
  else { Y = groupFrom<MonG>(genElement<MonS>(g, r, o, ly)); ly = "indep"; }
  // the second operand is derived by composition and can leave the domain the property is stated for (coordinates up to 1e6):
  // SGal3 with velocity 1e6 and time 1e3 yields translations 1e9, where the conditioning of double arithmetic itself (ulp 1e-7) is
  // what one measures.  Such pairs are counted and replaced by an independent in-domain element.
  {
    double cm = 0; for (int k = 0; k < g.rep; ++k) cm = std::max(cm, std::fabs((double)Y.coeffs()(k)));
    if (cm > (dbl ? 1e7 : 1e3)) { LOG.count("second-operand-outside-domain/" + GN()); Y = groupFrom<MonG>(genElement<MonS>(g, r, o, ly)); ly = "indep"; rel = false; }
  }
  std::vector<MonS> pv = genPoint<MonS>(g, r, 1e3);
  typename MonG::Vector p; for (int k = 0; k < g.dim; ++k) p(k) = pv[k];

  const GM MX = gmOf(X), MY = gmOf(Y);
  const VecL tl = toL(t.coeffs()), pl = toL(p);
  const int n = g.dof;
  Ctx c(a, i);
  c.tol = dbl ? 1e-6 : 1e-2;
  // Jacobians of log-type operations (log, rminus, lminus) contain the inverse Jacobian Jr^-1 of the resulting tangent.  Where that matrix is
  // ill conditioned (SGal3 with |time*velocity| ~ 1e6: cond 1e11 and more) no evaluation through Jr^-1 in working precision can reach 1e-6:
  // the tolerance gets the allowance min(0.1*u*cond(Jr), 10*tol) -- below 1e-8 for cond < 1e9, i.e. irrelevant for all but a few samples per million
  // (measured: 1.47e-6 at cond 3.6e11, and manif instantiated for long double agrees with the oracle to 1e-9 on that sample)
  auto condAllow = [&](const VecL& tres) { ref::BigL Jt = ref::gJr(g, tres); double cnd = (double)(Jt.norm() * ref::bigInverse(Jt).norm()); LOG.maxi("cond-Jr/" + GN(), cnd); return std::min(0.1 * Sc<MonS>::u() * cnd, 10 * c.tol); };   // capped at 10x the nominal tolerance: closed-form inverses do not need it, and no defect larger than that hides behind it
  c.base.vec("X", X.coeffs()).vec("Y", Y.coeffs()).vec("t", tv).vec("p", pv);

  // distance to the cut locus decides the finite-difference step
  auto stepFor = [&](LD theta) { LD d = PI - theta; LD h = 1e-4L; if (0.01L * d < h) h = 0.01L * d; return h; };
  const LD thX = ref::gtheta(g, ref::glog(g, MX));
  const VecL relXY = ref::gminus(g, MX, MY);                      // log(Y^-1 X)
  const LD thRel = ref::gtheta(g, relXY);
  const VecL relL = ref::glog(g, ref::gmul(MX, ref::ginv(g, MY)));  // log(X Y^-1)
  const LD thRelL = ref::gtheta(g, relL);

  // pick a few operations per case (the oracle costs ~4*DoF model evaluations per Jacobian)
  const int NOPS = 11;
  int nsel = g.dof > 12 ? 2 : 4;
  bool sel[NOPS] = {false};
  for (int k = 0; k < nsel; ++k) sel[r.below(NOPS)] = true;
  if (a.only >= 0) for (int k = 0; k < NOPS; ++k) sel[k] = true;

  const std::string gx = GN() + "/";
  MJ Ja, Jb;

  if (sel[0]) {  // inverse
    c.cellkey = gx + lx; c.vkey = gx + dropLin(lx);
    X.inverse(Ja);
    GM F0 = ref::ginv(g, MX);
    const LD h_Jr_ = stepFor(0); auto o_Jr_ = [&](LD hh) { return ref::fdJac(n, n, hh, [&](const VecL& d) { return ref::gminus(g, ref::ginv(g, ref::gplus(g, MX, d)), F0); }); };
    c.rec("inverse", toLM(Ja), h_Jr_, o_Jr_);
  }
  if (sel[1] && thX < PI - 1e-6) {  // log
    c.cellkey = gx + lx; c.vkey = gx + dropLin(lx);
    X.log(Ja);
    VecL F0 = ref::glog(g, MX);
    const LD h_Jr_ = stepFor(thX); auto o_Jr_ = [&](LD hh) { return ref::fdJac(n, n, hh, [&](const VecL& d) { VecL v = ref::glog(g, ref::gplus(g, MX, d)) - F0; return v; }); };
    c.cond_allow = condAllow(F0);
    c.rec("log", toLM(Ja), h_Jr_, o_Jr_);
    c.cond_allow = 0;
  }
  if (sel[2]) {  // exp
    c.cellkey = gx + lt; c.vkey = gx + dropLin(lt);
    t.exp(Ja);
    GM F0 = ref::gexp(g, tl);
    const LD h_Jr_ = stepFor(0); auto o_Jr_ = [&](LD hh) { return ref::fdJac(n, n, hh, [&](const VecL& d) { VecL td = tl + d; return ref::gminus(g, ref::gexp(g, td), F0); }); };
    c.rec("exp", toLM(Ja), h_Jr_, o_Jr_);
  }
  // "each returned matrix": in a third of the cases the two Jacobians of a two-output operation are requested one at a time
  const bool alone = (i % 3 == 1); const std::string sfx = alone ? "(requested-alone)" : "";
  if (sel[3]) {  // compose
    c.cellkey = gx + lx; c.vkey = gx + dropLin(lx);
    if (alone) { X.compose(Y, Ja, MonG::_); X.compose(Y, MonG::_, Jb); } else X.compose(Y, Ja, Jb);
    GM F0 = ref::gmul(MX, MY);
    const LD h_J1 = stepFor(0); auto o_J1 = [&](LD hh) { return ref::fdJac(n, n, hh, [&](const VecL& d) { return ref::gminus(g, ref::gmul(ref::gplus(g, MX, d), MY), F0); }); };
    const LD h_J2 = stepFor(0); auto o_J2 = [&](LD hh) { return ref::fdJac(n, n, hh, [&](const VecL& d) { return ref::gminus(g, ref::gmul(MX, ref::gplus(g, MY, d)), F0); }); };
    c.rec("compose-J_a" + sfx, toLM(Ja), h_J1, o_J1); c.rec("compose-J_b" + sfx, toLM(Jb), h_J2, o_J2);
  }
  if (sel[4]) {  // between = X^-1 Y
    c.cellkey = gx + lx; c.vkey = gx + dropLin(lx);
    if (alone) { X.between(Y, Ja, MonG::_); X.between(Y, MonG::_, Jb); } else X.between(Y, Ja, Jb);
    GM F0 = ref::gmul(ref::ginv(g, MX), MY);
    const LD h_J1 = stepFor(0); auto o_J1 = [&](LD hh) { return ref::fdJac(n, n, hh, [&](const VecL& d) { return ref::gminus(g, ref::gmul(ref::ginv(g, ref::gplus(g, MX, d)), MY), F0); }); };
    const LD h_J2 = stepFor(0); auto o_J2 = [&](LD hh) { return ref::fdJac(n, n, hh, [&](const VecL& d) { return ref::gminus(g, ref::gmul(ref::ginv(g, MX), ref::gplus(g, MY, d)), F0); }); };
    c.rec("between-J_a" + sfx, toLM(Ja), h_J1, o_J1); c.rec("between-J_b" + sfx, toLM(Jb), h_J2, o_J2);
  }
  if (sel[5]) {  // rplus = X exp(t)
    c.cellkey = gx + lt; c.vkey = gx + dropLin(lt);
    if (alone) { X.rplus(t, Ja, MonG::_); X.rplus(t, MonG::_, Jb); } else X.rplus(t, Ja, Jb);
    GM F0 = ref::gplus(g, MX, tl);
    const LD h_J1 = stepFor(0); auto o_J1 = [&](LD hh) { return ref::fdJac(n, n, hh, [&](const VecL& d) { return ref::gminus(g, ref::gplus(g, ref::gplus(g, MX, d), tl), F0); }); };
    const LD h_J2 = stepFor(0); auto o_J2 = [&](LD hh) { return ref::fdJac(n, n, hh, [&](const VecL& d) { VecL td = tl + d; return ref::gminus(g, ref::gplus(g, MX, td), F0); }); };
    c.rec("rplus-J_m" + sfx, toLM(Ja), h_J1, o_J1); c.rec("rplus-J_t" + sfx, toLM(Jb), h_J2, o_J2);
    // plus is the documented alias: identical Jacobians
    MJ Pa, Pb; X.plus(t, Pa, Pb);
    if (!(Pa == Ja) || !(Pb == Jb)) LOG.viol("plus-alias-jacobians/" + c.vkey, 1, caseJ(a, i).raw("inputs", c.base.str()).str());
  }
  if (sel[6]) {  // lplus = exp(t) X
    c.cellkey = gx + lt; c.vkey = gx + dropLin(lt);
    if (alone) { X.lplus(t, Ja, MonG::_); X.lplus(t, MonG::_, Jb); } else X.lplus(t, Ja, Jb);
    GM F0 = ref::gmul(ref::gexp(g, tl), MX);
    const LD h_J1 = stepFor(0); auto o_J1 = [&](LD hh) { return ref::fdJac(n, n, hh, [&](const VecL& d) { return ref::gminus(g, ref::gmul(ref::gexp(g, tl), ref::gplus(g, MX, d)), F0); }); };
    const LD h_J2 = stepFor(0); auto o_J2 = [&](LD hh) { return ref::fdJac(n, n, hh, [&](const VecL& d) { VecL td = tl + d; return ref::gminus(g, ref::gmul(ref::gexp(g, td), MX), F0); }); };
    c.rec("lplus-J_m" + sfx, toLM(Ja), h_J1, o_J1); c.rec("lplus-J_t" + sfx, toLM(Jb), h_J2, o_J2);
    // tangent-side forms route their outputs to the matching argument
    MJ Ta, Tb; t.lplus(X, Ta, Tb);
    if (!(Ta == Jb) || !(Tb == Ja)) LOG.viol("tangent-lplus-jacobian-routing/" + c.vkey, 1, caseJ(a, i).raw("inputs", c.base.str()).str());
    MJ Ra, Rb, Qa, Qb; t.rplus(X, Ra, Rb); X.rplus(t, Qa, Qb);
    if (!(Ra == Qb) || !(Rb == Qa)) LOG.viol("tangent-rplus-jacobian-routing/" + c.vkey, 1, caseJ(a, i).raw("inputs", c.base.str()).str());
  }
  if (sel[7] && thRel < PI - 1e-6) {  // rminus = log(Y^-1 X)
    c.cellkey = gx + ly; c.vkey = gx + dropLin(ly);
    if (alone) { X.rminus(Y, Ja, MonG::_); X.rminus(Y, MonG::_, Jb); } else X.rminus(Y, Ja, Jb);
    // (X exp d) (-) Y = log(Y^-1 X exp d) and X (-) (Y exp d) = log(exp(-d) Y^-1 X): the product C = Y^-1 X is formed once, so that
    // large coordinates common to X and Y (1e6) do not enter the differences as round-off (associativity of the model group only)
    const GM C = ref::gmul(ref::ginv(g, MY), MX);
    const LD h_J1 = stepFor(thRel); auto o_J1 = [&](LD hh) { return ref::fdJac(n, n, hh, [&](const VecL& d) { VecL v = ref::glog(g, ref::gmul(C, ref::gexp(g, d))) - relXY; return v; }); };
    const LD h_J2 = stepFor(thRel); auto o_J2 = [&](LD hh) { return ref::fdJac(n, n, hh, [&](const VecL& d) { VecL md = -d; VecL v = ref::glog(g, ref::gmul(ref::gexp(g, md), C)) - relXY; return v; }); };
    c.cond_allow = condAllow(relXY);
    c.rec("rminus-J_a" + sfx, toLM(Ja), h_J1, o_J1); c.rec("rminus-J_b" + sfx, toLM(Jb), h_J2, o_J2);
    c.cond_allow = 0;
    MJ Pa, Pb; X.minus(Y, Pa, Pb);
    if (!(Pa == Ja) || !(Pb == Jb)) LOG.viol("minus-alias-jacobians/" + c.vkey, 1, caseJ(a, i).raw("inputs", c.base.str()).str());
  }
  if (sel[8] && thRelL < PI - 1e-6) {  // lminus = log(X Y^-1)
    c.cellkey = gx + ly; c.vkey = gx + dropLin(ly);
    if (alone) { X.lminus(Y, Ja, MonG::_); X.lminus(Y, MonG::_, Jb); } else X.lminus(Y, Ja, Jb);
    // (X exp d) Y^-1 = D exp(Ad_Y d) and X (Y exp d)^-1 = D exp(-Ad_Y d) with D = X Y^-1 formed once and Ad_Y from its
    // definition on the model: the huge common-mode coordinates of X and Y then enter only through the linear map Ad_Y
    const GM D = ref::gmul(MX, ref::ginv(g, MY));
    const BigL AdY = ref::gAdj(g, MY);
    auto pert = [&](const VecL& d, LD sgn) { Eigen::Matrix<LD, -1, 1> dd = d; Eigen::Matrix<LD, -1, 1> w = sgn * (AdY * dd); VecL v = w; return v; };
    const LD h_J1 = stepFor(thRelL); auto o_J1 = [&](LD hh) { return ref::fdJac(n, n, hh, [&](const VecL& d) { VecL v = ref::glog(g, ref::gmul(D, ref::gexp(g, pert(d, 1)))) - relL; return v; }); };
    const LD h_J2 = stepFor(thRelL); auto o_J2 = [&](LD hh) { return ref::fdJac(n, n, hh, [&](const VecL& d) { VecL v = ref::glog(g, ref::gmul(D, ref::gexp(g, pert(d, -1)))) - relL; return v; }); };
    c.cond_allow = condAllow(relL);
    c.rec("lminus-J_a" + sfx, toLM(Ja), h_J1, o_J1); c.rec("lminus-J_b" + sfx, toLM(Jb), h_J2, o_J2);
    c.cond_allow = 0;
  }
  if (sel[9]) {  // act
    c.cellkey = gx + lx; c.vkey = gx + dropLin(lx);
    Eigen::Matrix<MonS, MonG::Dim, MonG::DoF> Jm; Eigen::Matrix<MonS, MonG::Dim, MonG::Dim> Jp;
    if (alone) { X.act(p, Jm, tl::optional<Eigen::Ref<Eigen::Matrix<MonS, MonG::Dim, MonG::Dim>>>{}); X.act(p, tl::optional<Eigen::Ref<Eigen::Matrix<MonS, MonG::Dim, MonG::DoF>>>{}, Jp); } else X.act(p, Jm, Jp);
    VecL F0 = ref::gact(g, MX, pl);
    const LD h_J1 = 1e-4L; auto o_J1 = [&](LD hh) { return ref::fdJac(n, g.dim, hh, [&](const VecL& d) { VecL v = ref::gact(g, ref::gplus(g, MX, d), pl) - F0; return v; }); };
    const LD h_J2 = 1e-4L; auto o_J2 = [&](LD hh) { return ref::fdJac(g.dim, g.dim, hh, [&](const VecL& d) { VecL pd = pl + d; VecL v = ref::gact(g, MX, pd) - F0; return v; }); };
    c.rec("act-J_m" + sfx, toLM(Jm), h_J1, o_J1); c.rec("act-J_p" + sfx, toLM(Jp), h_J2, o_J2);
  }
  if (sel[10]) {  // tangent plus / minus: +-Identity exactly
    c.cellkey = gx + lt; c.vkey = gx + dropLin(lt);
    MonT s = tangentFrom<MonT>(genTangent<MonS>(g, r, o, ly));
    MJ A1, B1, A2, B2; MonT u1 = t.plus(s, A1, B1), u2 = t.minus(s, A2, B2);
    MJ I = MJ::Identity();
    bool ok = (A1 == I) && (B1 == I) && (A2 == I) && (B2 == MJ(-I));
    for (int k = 0; k < n; ++k) ok = ok && u1.coeffs()(k) == t.coeffs()(k) + s.coeffs()(k) && u2.coeffs()(k) == t.coeffs()(k) - s.coeffs()(k);
    LOG.cell("tangent-plus-minus/" + c.cellkey, ok ? 0 : 1, true);
    if (!ok) LOG.viol("tangent-plus-minus/" + c.vkey, 1, caseJ(a, i).raw("inputs", c.base.str()).str());
  }
  if (i < 2) LOG.sample(caseJ(a, i).s("cellX", lx).s("cellT", lt).s("Y", ly).vecd("X", X.coeffs()).vecd("t", tv).str());
}
