// C15 monitor: interpolation hits its end points, rejects parameters outside [0,1]; SLERP follows the geodesic.
#define MON_NAME "c15_interp"
#include "mon.h"
#include <cstring>
#include <manif/algorithms/interpolation.h>
#include <limits>

static const double PI = 3.14159265358979323846;
static double TOL() { return sizeof(MonS) == 4 ? 2e-3 : 1e-8; }
using ref::VecL; using ref::GM; using ref::LD;
static const manif::INTERP_METHOD METH[] = {manif::INTERP_METHOD::SLERP, manif::INTERP_METHOD::CUBIC, manif::INTERP_METHOD::CNSMOOTH};
static const char* MNAME[] = {"SLERP", "CUBIC", "CNSMOOTH"};

void runOnce(const Args&) {
  // smoothing polynomial: phi(0)=0, phi(1)=1, monotone on [0,1] for every supported degree; unsupported degrees raise
  for (int m = 1; m <= 4; ++m) {
    double p0 = manif::smoothing_phi(0.0, m), p1 = manif::smoothing_phi(1.0, m);
    LOG.cell("phi-endpoints/m=" + std::to_string(m), std::max(std::fabs(p0), std::fabs(p1 - 1)));
    if (!(p0 == 0) || !(std::fabs(p1 - 1) <= 1e-12)) LOG.viol("phi-endpoints/m=" + std::to_string(m), std::max(std::fabs(p0), std::fabs(p1 - 1)), J().d("phi0", p0).d("phi1", p1).str());
    double prev = 0, worst = 0; const int NG = 20000;
    for (int k = 1; k <= NG; ++k) { double v = manif::smoothing_phi((double)k / NG, m); worst = std::max(worst, prev - v); prev = v; }
    LOG.cell("phi-monotone-grid/m=" + std::to_string(m), worst);
    // rounding of the degree-(2m+1) polynomial: sum |coefficients| * u (1471 u for m=4)
    if (!(worst <= 1e-12)) LOG.viol("phi-not-monotone/m=" + std::to_string(m), worst, J().d("largest_decrease", worst).str());
  }
  for (std::size_t m : {(std::size_t)0, (std::size_t)5, (std::size_t)6, (std::size_t)100, (std::size_t)-1}) {
    bool threw = false;
    try { manif::smoothing_phi(0.5, m); } catch (const std::exception&) { threw = true; }
    LOG.cell("phi-unsupported-degree/m=" + std::to_string((long long)m), threw ? 0 : 1);
    if (!threw) LOG.viol("phi-unsupported-degree-accepted", 1, J().i("m", (long long)m).str());
  }
}

void runCase(long long i, Prng& r, const Args& a) {
  const ref::Group& g = RG();
  const bool dbl = sizeof(MonS) == 8;
  GenOpt o; o.thetaMax = PI; o.nearPiMin = 0; o.linMax = dbl ? 1e6 : 1e2;  // float: differences of 1e6-sized coordinates carry no digits
  std::string la, lt, lv;
  MonG A = groupFrom<MonG>(genElement<MonS>(g, r, o, la));
  GenOpt ot = o; ot.thetaMax = PI - (dbl ? 1e-6 : 1e-2); ot.nearPiMin = dbl ? 1e-6 : 1e-2;
  std::vector<MonS> tv = genTangent<MonS>(g, r, ot, lt);
  MonT tab = tangentFrom<MonT>(tv);
  MonG B = A.compose(tab.exp());                 // relative transform exp(tab), rotation below pi
  GenOpt ov; ov.thetaMax = 3; ov.linMax = dbl ? 1e3 : 1e1; ov.tinyTheta = false;
  MonT va = tangentFrom<MonT>(genTangent<MonS>(g, r, ov, lv)), vb = tangentFrom<MonT>(genTangent<MonS>(g, r, ov, lv));
  if (i % 3 == 0) { va.setZero(); vb.setZero(); }
  const GM MA = gmOf(A), MB = gmOf(B);
  // magnitude of the quantities entering the computation: coordinates of A and B and of the end velocities
  const LD sc = std::max({ref::gscale(MA), ref::gscale(MB), toL(va.coeffs()).cwiseAbs().maxCoeff(), toL(vb.coeffs()).cwiseAbs().maxCoeff()});
  LD tf = 1; for (int b = 0; b < g.nb(); ++b) if (g.el[b].kind == ref::K_SGAL3) tf = std::max({tf, std::fabs((LD)A.coeffs()(g.repOff[b] + 10)), std::fabs((LD)B.coeffs()(g.repOff[b] + 10)), std::fabs((LD)va.coeffs()(g.dofOff[b] + 9)), std::fabs((LD)vb.coeffs()(g.dofOff[b] + 9))});
  const std::string gx = GN() + "/";
  J base; base.vec("A", A.coeffs()).vec("B", B.coeffs()).vec("ta", va.coeffs()).vec("tb", vb.coeffs());
  auto viol = [&](const std::string& key, double mag, const std::string& extra = "") { LOG.viol(key, mag, caseJ(a, i).d("err", mag).s("note", extra).raw("inputs", base.str()).str()); };
  const double thRel = (double)ref::gtheta(g, toL(tab.coeffs()));
  const double tol = TOL() + 16 * Sc<MonS>::u() / std::max(PI - thRel, 16 * Sc<MonS>::u());

  for (int m = 0; m < 3; ++m) {
    const std::string mk = std::string(MNAME[m]) + "/" + gx;
    // end points
    try {
      MonG I0 = manif::interpolate(A, B, MonS(0), METH[m], va, vb), I1 = manif::interpolate(A, B, MonS(1), METH[m], va, vb);
      double e0 = (double)(ref::gdiff(gmOf(I0), MA) / (sc * tf)), e1 = (double)(ref::gdiff(gmOf(I1), MB) / (sc * tf));
      LOG.cell("endpoint-t=0/" + mk + lt, e0); LOG.cell("endpoint-t=1/" + mk + lt, e1);
      LOG.maxi("endpoint-err/" + std::string(MNAME[m]) + "/" + GN(), std::max(e0, e1));
      if (!(e0 <= tol)) viol("endpoint-t=0/" + mk + dropLin(lt), e0);
      if (!(e1 <= tol)) viol("endpoint-t=1/" + mk + dropLin(lt), e1);
      // an interior parameter gives a valid element
      MonG Ih = manif::interpolate(A, B, MonS(r.uni(0.01, 0.99)), METH[m], va, vb);
      double nd = (double)normDev(g, Ih.coeffs());
      if (!finiteVec(Ih.coeffs()) || !(nd < Sc<MonS>::eps())) viol("interior-invalid/" + mk + dropLin(lt), nd);
    } catch (const std::exception& e) { viol("throws-inside-[0,1]/" + mk + dropLin(lt), 1, e.what()); }
    // parameters outside [0,1] (and NaN) are rejected
    const double inf = std::numeric_limits<double>::infinity();
    const double bad[] = {-1e-300, -1e-9, -1.0, 1 + 1e-9, 2.0, inf, -inf, std::numeric_limits<double>::quiet_NaN(), -std::numeric_limits<double>::denorm_min(), std::nextafter(1.0, 2.0)};
    for (double tb : bad) {
      // the parameter must be outside [0,1] in the scalar type of the group (1+1e-9 is exactly 1 in float)
      { MonS ts = (MonS)tb; if (ts >= MonS(0) && ts <= MonS(1)) continue; }
      bool threw = false;
      try { manif::interpolate(A, B, tb, METH[m], va, vb); } catch (const std::exception&) { threw = true; }
      char lb[48]; snprintf(lb, sizeof lb, "t=%g", tb);
      LOG.cell("outside-rejected/" + mk + lb, threw ? 0 : 1);
      if (!threw) viol("outside-accepted/" + mk + lb, 1);
    }
  }
  // the three method functions called directly (not through the dispatcher), interpolate_smooth for every supported degree, and the
  // forms with the end velocities omitted: end points, range check, bit-identity with the dispatcher where it forwards
  {
    auto ends = [&](const std::string& what, const MonG& I0, const MonG& I1) {
      double e0 = (double)(ref::gdiff(gmOf(I0), MA) / (sc * tf)), e1 = (double)(ref::gdiff(gmOf(I1), MB) / (sc * tf));
      LOG.cell("direct-endpoints/" + what + "/" + gx + lt, std::max(e0, e1));
      if (!(e0 <= tol)) viol("endpoint-t=0/" + what + "/" + gx + dropLin(lt), e0);
      if (!(e1 <= tol)) viol("endpoint-t=1/" + what + "/" + gx + dropLin(lt), e1);
    };
    auto same = [&](const std::string& what, const MonG& x, const MonG& y) {
      bool ok = std::memcmp(x.data(), y.data(), sizeof(MonS) * MonG::RepSize) == 0;
      LOG.cell("dispatcher-forwards/" + what + "/" + GN(), ok ? 0 : 1);
      if (!ok) viol("dispatcher-differs-from-direct-call/" + what + "/" + GN(), 1);
    };
    const MonS th = (MonS)r.uni(0.01, 0.99), z0(0), z1(1);
    const MonT zero = MonT::Zero();
    try {
      ends("interpolate_slerp", manif::interpolate_slerp(A, B, z0), manif::interpolate_slerp(A, B, z1));
      ends("interpolate_cubic", manif::interpolate_cubic(A, B, z0, va, vb), manif::interpolate_cubic(A, B, z1, va, vb));
      ends("interpolate_cubic(default-velocities)", manif::interpolate_cubic(A, B, z0), manif::interpolate_cubic(A, B, z1));
      for (unsigned m = 1; m <= 4; ++m) {
        ends("interpolate_smooth(m=" + std::to_string(m) + ")", manif::interpolate_smooth(A, B, z0, m, va, vb), manif::interpolate_smooth(A, B, z1, m, va, vb));
        MonG Ih = manif::interpolate_smooth(A, B, th, m, va, vb);
        double nd = (double)normDev(g, Ih.coeffs());
        if (!finiteVec(Ih.coeffs()) || !(nd < Sc<MonS>::eps())) viol("interior-invalid/interpolate_smooth(m=" + std::to_string(m) + ")/" + gx + dropLin(lt), nd);
      }
      ends("interpolate_smooth(m=3,default-velocities)", manif::interpolate_smooth(A, B, z0, 3), manif::interpolate_smooth(A, B, z1, 3));
      ends("interpolate(default-method)", manif::interpolate(A, B, z0), manif::interpolate(A, B, z1));
      ends("interpolate(CUBIC,default-velocities)", manif::interpolate(A, B, z0, manif::INTERP_METHOD::CUBIC), manif::interpolate(A, B, z1, manif::INTERP_METHOD::CUBIC));
      ends("interpolate(CNSMOOTH,default-velocities)", manif::interpolate(A, B, z0, manif::INTERP_METHOD::CNSMOOTH), manif::interpolate(A, B, z1, manif::INTERP_METHOD::CNSMOOTH));
      // the dispatcher forwards: same bits as the direct call
      same("SLERP", manif::interpolate(A, B, th, manif::INTERP_METHOD::SLERP, va, vb), manif::interpolate_slerp(A, B, th));
      same("default=SLERP", manif::interpolate(A, B, th), manif::interpolate_slerp(A, B, th));
      same("CUBIC", manif::interpolate(A, B, th, manif::INTERP_METHOD::CUBIC, va, vb), manif::interpolate_cubic(A, B, th, va, vb));
      same("CUBIC(default-velocities=zero)", manif::interpolate(A, B, th, manif::INTERP_METHOD::CUBIC), manif::interpolate_cubic(A, B, th, zero, zero));
      same("CNSMOOTH(default-velocities=zero)", manif::interpolate(A, B, th, manif::INTERP_METHOD::CNSMOOTH), manif::interpolate(A, B, th, manif::INTERP_METHOD::CNSMOOTH, zero, zero));
    } catch (const std::exception& e) { viol("throws-inside-[0,1]/direct/" + gx + dropLin(lt), 1, e.what()); }
    // range check and degree check of the direct calls
    const MonS outs[] = {(MonS)-1e-3, (MonS)1.001, (MonS)-1, (MonS)2};
    for (MonS tb : outs) {
      int acc = 0;
      try { manif::interpolate_slerp(A, B, tb); ++acc; } catch (const std::exception&) {}
      try { manif::interpolate_cubic(A, B, tb, va, vb); ++acc; } catch (const std::exception&) {}
      for (unsigned m = 1; m <= 4; ++m) try { manif::interpolate_smooth(A, B, tb, m, va, vb); ++acc; } catch (const std::exception&) {}
      LOG.cell("direct-outside-rejected/" + GN(), acc);
      if (acc) viol("outside-accepted/direct-call/" + GN(), acc);
    }
    for (unsigned m : {0u, 5u, 6u, 100u}) {
      bool threw = false;
      try { manif::interpolate_smooth(A, B, th, m, va, vb); } catch (const std::exception&) { threw = true; }
      LOG.cell("unsupported-degree-raises/interpolate_smooth/" + GN(), threw ? 0 : 1);
      if (!threw) viol("unsupported-degree-accepted/interpolate_smooth(m=" + std::to_string(m) + ")/" + GN(), 1);
    }
  }
  // SLERP: log(A^-1 m(t)) = t log(A^-1 B); commutes with left translation
  {
    double tt = (i % 4 == 0) ? r.logu(1e-12, 1) : r.u01();
    MonG Mt = manif::interpolate(A, B, MonS(tt));
    const LD tts = (LD)(MonS)tt;
    VecL want = ref::gminus(g, MB, MA) * tts;
    GM Rt = ref::gplus(g, MA, want);
    double e = (double)(ref::gdiff(gmOf(Mt), Rt) / (sc * tf));
    LOG.cell("slerp-geodesic/" + gx + lt, e); LOG.maxi("slerp-geodesic-err/" + GN(), e);
    if (!(e <= tol)) viol("slerp-not-geodesic/" + gx + dropLin(lt), e);
    std::string ll; GenOpt ol; ol.thetaMax = PI; ol.linMax = 1e3;
    MonG L = groupFrom<MonG>(genElement<MonS>(g, r, ol, ll));
    MonG lhs = manif::interpolate(L * A, L * B, MonS(tt)), rhs = L * Mt;
    LD sl = std::max({ref::gscale(gmOf(L)), sc}) * std::max(ref::gscale(gmOf(L)), (LD)1);
    double e2 = (double)(ref::gdiff(gmOf(lhs), gmOf(rhs)) / (sl * tf * tf));
    LOG.cell("slerp-left-equivariant/" + gx + lt, e2); LOG.maxi("slerp-equivariance-err/" + GN(), e2);
    if (!(e2 <= 4 * tol)) viol("slerp-not-left-equivariant/" + gx + dropLin(lt), e2);
  }
  if (i < 2) LOG.sample(caseJ(a, i).s("cell", lt).vecd("A", A.coeffs()).vecd("B", B.coeffs()).str());
}
