"""Generator of the C19 API-matrix translation units.

One TU per (group, scalar).  Every cell = (documented API entry, storage kind of the receiver/arguments) is a small function that
executes the entry on fixed operands and records a digest of its result; digests of the Map / Map<const> cells must be bit-identical
to the owning cell (the instantiation forwards to the same behaviour).  For localisation a TU containing a single cell can be emitted.
"""

# kind: 'g'  non-mutating, group receiver        -> storages own, map, cmap
#       't'  non-mutating, tangent receiver      -> storages own, map, cmap
#       'gm' mutating group receiver             -> storages own, map
#       'tm' mutating tangent receiver           -> storages own, map
#       's'  static helper / algorithm            -> once
# code: C++ statements using X, Y (groups), t, s (tangents), p (point), Ja, Jb (Jacobians), Jm, Jp (act Jacobians), d (digest sink: d << value)
ENTRIES = [
    # ---- LieGroupBase ------------------------------------------------------------------------------
    ('inverse', 'g', 'd << X.inverse();'),
    ('inverse(J)', 'g', 'd << X.inverse(Ja) << Ja;'),
    ('log', 'g', 'd << X.log();'),
    ('log(J)', 'g', 'd << X.log(Ja) << Ja;'),
    ('lift', 'g', 'd << X.lift();'),
    ('compose', 'g', 'd << X.compose(Y);'),
    ('compose(J,J)', 'g', 'd << X.compose(Y, Ja, Jb) << Ja << Jb;'),
    ('operator*', 'g', 'd << (X * Y);'),
    ('act', 'g', 'd << X.act(p);'),
    ('act(J,J)', 'g', 'd << X.act(p, Jm, Jp) << Jm << Jp;'),
    ('adj', 'g', 'd << X.adj();'),
    ('rplus', 'g', 'd << X.rplus(t);'),
    ('rplus(J,J)', 'g', 'd << X.rplus(t, Ja, Jb) << Ja << Jb;'),
    ('lplus', 'g', 'd << X.lplus(t);'),
    ('lplus(J,J)', 'g', 'd << X.lplus(t, Ja, Jb) << Ja << Jb;'),
    ('plus', 'g', 'd << X.plus(t);'),
    ('plus(J,J)', 'g', 'd << X.plus(t, Ja, Jb) << Ja << Jb;'),
    ('operator+(tangent)', 'g', 'd << (X + t);'),
    ('rminus', 'g', 'd << X.rminus(Y);'),
    ('rminus(J,J)', 'g', 'd << X.rminus(Y, Ja, Jb) << Ja << Jb;'),
    ('lminus', 'g', 'd << X.lminus(Y);'),
    ('lminus(J,J)', 'g', 'd << X.lminus(Y, Ja, Jb) << Ja << Jb;'),
    ('lminus(J,_)', 'g', 'd << X.lminus(Y, Ja, G::_) << Ja;'),
    ('lminus(_,J)', 'g', 'd << X.lminus(Y, G::_, Jb) << Jb;'),
    ('minus', 'g', 'd << X.minus(Y);'),
    ('minus(J,J)', 'g', 'd << X.minus(Y, Ja, Jb) << Ja << Jb;'),
    ('operator-(group)', 'g', 'd << (X - Y);'),
    ('between', 'g', 'd << X.between(Y);'),
    ('between(J,J)', 'g', 'd << X.between(Y, Ja, Jb) << Ja << Jb;'),
    ('binary-ops(mixed-storage)', 'g', 'd << X.compose(Yo) << Xo.compose(Y) << X.between(Yo) << Xo.rminus(Y) << X.lminus(Yo) << (Xo * Y) << (X - Yo) << (Xo.isApprox(Y) ? 1 : 0) << X.rplus(to) << Xo.lplus(t);'),
    ('isApprox', 'g', 'd << (X.isApprox(Y) ? 1 : 0) << (X.isApprox(X, S(1e-3)) ? 1 : 0);'),
    ('operator==', 'g', 'd << ((X == Y) ? 1 : 0) << ((X == X) ? 1 : 0);'),
    ('coeffs', 'g', 'd << X.coeffs();'),
    ('data', 'g', 'd << X.data()[0];'),
    ('data()-on-non-const-variable', 'g', 'auto Xn = X; d << Xn.data()[0] << Xn.coeffs()(0);'),
    ('operator[]', 'g', 'd << X[0];'),
    ('size', 'g', 'd << (int)X.size();'),
    ('cast<float>', 'g', 'd << X.template cast<float>();'),
    ('cast<double>', 'g', 'd << X.template cast<double>();'),
    ('transform', 'g', 'd << X.transform();'),
    ('stream<<', 'g', 'std::ostringstream o; o << X; d << (int)o.str().size();'),
    ('copy-construct', 'g', 'G Z(X); d << Z;'),
    ('assign-to-owning', 'g', 'G Z; Z = X; d << Z;'),
    ('copy-initialise(implicit-conversion)', 'g', 'G Z = X; d << Z; const G& r = X; d << r;'),
    ('assign-from-temporary', 'g', 'typedef typename std::decay<decltype(X)>::type K; G Z; Z = K(X); d << Z; K mv(X); G W; W = std::move(mv); d << W; G V((K(X))); d << V;'),
    ('view=temporary', 'g', 'typedef typename std::decay<decltype(X)>::type K; typename G::DataType buf = Yo.coeffs(); Eigen::Map<G> V(buf.data()); V = K(X); d << V; d << buf;'),
    ('tangent+group(group-in-any-storage)', 'g', 'd << (to + X) << to.plus(X) << to.lplus(X) << to.rplus(X) << to.plus(X, Ja, Jb) << Ja << Jb << to.rplus(X, Ja, Jb) << Ja << Jb;'),
    ('static-constants(odr-use)', 'g', 'typedef typename std::decay<decltype(X)>::type K; d << odr(K::Dim) << odr(K::DoF) << odr(K::RepSize) << (BSz<K>::get() < 0 ? BSz<G>::get() : BSz<K>::get()) << std::max(K::DoF, K::RepSize);'),
    ('forwards:group-aliases', 'g', 'Jac A1, B1, A2, B2; d << same(X.plus(t, A1, B1), X.rplus(t, A2, B2)); d << same(A1, A2); d << same(B1, B2); d << same(X + t, X.rplus(t)); d << same(X.minus(Y, A1, B1), X.rminus(Y, A2, B2)); d << same(A1, A2); d << same(B1, B2); d << same(X - Y, X.rminus(Y)); d << same(X * Y, X.compose(Y)); d << same(X.lift(A1), X.log(A2)); d << same(A1, A2); d << same(X.between(Y), X.inverse().compose(Y));'),
    ('forwards:tangent-side-plus', 'g', 'Jac A1, B1, A2, B2; d << same(to.lplus(X, A1, B1), X.lplus(to, B2, A2)); d << same(A1, A2); d << same(B1, B2); d << same(to.rplus(X, A1, B1), X.rplus(to, B2, A2)); d << same(A1, A2); d << same(B1, B2); d << same(to.plus(X, A1, B1), X.lplus(to, B2, A2)); d << same(A1, A2); d << same(B1, B2); d << same(to + X, X.lplus(to)); d << same(to.retract(A1), to.exp(A2)); d << same(A1, A2);'),
    ('forwards:free-functions', 'g', 'Jac A1, B1, A2, B2; d << same(manif::rplus(X, t, A1, B1), X.rplus(t, A2, B2)); d << same(A1, A2); d << same(B1, B2); d << same(manif::lplus(X, t, A1, B1), X.lplus(t, A2, B2)); d << same(A1, A2); d << same(B1, B2); d << same(manif::rminus(X, Y, A1, B1), X.rminus(Y, A2, B2)); d << same(A1, A2); d << same(B1, B2); d << same(manif::lminus(X, Y, A1, B1), X.lminus(Y, A2, B2)); d << same(A1, A2); d << same(B1, B2); d << same(manif::between(X, Y, A1, B1), X.between(Y, A2, B2)); d << same(A1, A2); d << same(B1, B2); d << same(manif::compose(X, Y, A1, B1), X.compose(Y, A2, B2)); d << same(A1, A2); d << same(B1, B2); d << same(manif::inverse(X, A1), X.inverse(A2)); d << same(A1, A2); d << same(manif::log(X, A1), X.log(A2)); d << same(A1, A2); d << same(manif::exp(t, A1), t.exp(A2)); d << same(A1, A2); d << same(manif::plus(X, t, A1, B1), X.plus(t, A2, B2)); d << same(A1, A2); d << same(B1, B2); d << same(manif::minus(X, Y, A1, B1), X.minus(Y, A2, B2)); d << same(A1, A2); d << same(B1, B2);'),
    ('Identity', 's', 'd << G::Identity();'),
    ('Random', 's', 'srand(7); d << (int)G::Random().size();'),
    # ---- mutating group members ---------------------------------------------------------------------
    ('setIdentity', 'gm', 'X.setIdentity(); d << X;'),
    ('setRandom', 'gm', 'srand(7); X.setRandom(); d << (int)X.size();'),
    ('operator=(group)', 'gm', 'X = Y; d << X;'),
    ('operator=(Eigen)', 'gm', 'X = Y.coeffs(); d << X;'),
    ('operator+=', 'gm', 'X += t; d << X;'),
    ('operator*=', 'gm', 'X *= Y; d << X;'),
    ('coeffs()(i)=', 'gm', 'X.coeffs()(0) = X.coeffs()(0); d << X;'),
    # ---- TangentBase ----------------------------------------------------------------------------------
    ('exp', 't', 'd << t.exp();'),
    ('exp(J)', 't', 'd << t.exp(Ja) << Ja;'),
    ('retract', 't', 'd << t.retract();'),
    ('hat', 't', 'd << t.hat();'),
    ('rjac', 't', 'd << t.rjac();'),
    ('ljac', 't', 'd << t.ljac();'),
    ('rjacinv', 't', 'd << t.rjacinv();'),
    ('ljacinv', 't', 'd << t.ljacinv();'),
    ('smallAdj', 't', 'd << t.smallAdj();'),
    ('generator(i)', 't', 'd << t.generator(0);'),
    ('innerWeights', 't', 'd << t.innerWeights();'),
    ('inner', 't', 'd << t.inner(s);'),
    ('weightedNorm', 't', 'd << t.weightedNorm() << t.squaredWeightedNorm();'),
    ('bracket', 't', 'd << t.bracket(s);'),
    ('bracket(mixed-storage)', 't', 'd << t.bracket(so) << so.bracket(t) << T::Bracket(to, s);'),
    ('inner(mixed-storage)', 't', 'd << t.inner(so) << so.inner(t);'),
    ('tangent-isApprox', 't', 'd << (t.isApprox(s) ? 1 : 0) << (t.isApprox(t) ? 1 : 0) << (t.isApprox(s.coeffs()) ? 1 : 0);'),
    ('tangent-operator==', 't', 'd << ((t == s) ? 1 : 0) << ((t == t.coeffs()) ? 1 : 0);'),
    ('unary-', 't', 'd << (-t);'),
    ('t+X', 't', 'd << (t + Xo);'),
    ('t.plus(X)', 't', 'd << t.plus(Xo);'),
    ('t.plus(X,J,J)', 't', 'd << t.plus(Xo, Ja, Jb) << Ja << Jb;'),
    ('t.lplus(X)', 't', 'd << t.lplus(Xo);'),
    ('t.rplus(X)', 't', 'd << t.rplus(Xo);'),
    ('t.rplus(X,J,J)', 't', 'd << t.rplus(Xo, Ja, Jb) << Ja << Jb;'),
    ('t+t', 't', 'd << (t + s);'),
    ('t-t', 't', 'd << (t - s);'),
    ('t.plus(t,J,J)', 't', 'd << t.plus(s, Ja, Jb) << Ja << Jb;'),
    ('t.minus(t,J,J)', 't', 'd << t.minus(s, Ja, Jb) << Ja << Jb;'),
    ('t+vector', 't', 'd << (t + s.coeffs());'),
    ('vector+t', 't', 'typename T::DataType v = s.coeffs() + t; d << v;'),
    ('t-vector', 't', 'd << (t - s.coeffs());'),
    ('vector-t', 't', 'typename T::DataType v = s.coeffs() - t; d << v;'),
    ('t*scalar', 't', 'd << (t * S(2)) << (S(2) * t) << (t / S(2));'),
    ('J*t', 't', 'Ja.setIdentity(); d << (Ja * t);'),
    ('tangent-coeffs', 't', 'd << t.coeffs() << t.data()[0] << t[0] << (int)t.size();'),
    ('tangent-data()-on-non-const-variable', 't', 'auto tn = t; d << tn.data()[0] << tn.coeffs()(0);'),
    ('tangent-cast', 't', 'd << t.template cast<float>() << t.template cast<double>();'),
    ('tangent-stream<<', 't', 'std::ostringstream o; o << t; d << (int)o.str().size();'),
    ('tangent-copy', 't', 'T z(t); T y; y = t; d << z << y;'),
    ('tangent-copy-initialise(implicit-conversion)', 't', 'T z = t; d << z; const T& r = t; d << r;'),
    ('tangent-assign-from-temporary', 't', 'typedef typename std::decay<decltype(t)>::type K; T z; z = K(t); d << z; K mv(t); T w; w = std::move(mv); d << w; T v((K(t))); d << v;'),
    ('tangent-view=temporary', 't', 'typedef typename std::decay<decltype(t)>::type K; typename T::DataType buf = so.coeffs(); Eigen::Map<T> v(buf.data()); v = K(t); d << v; d << buf;'),
    ('tangent-static-constants(odr-use)', 't', 'typedef typename std::decay<decltype(t)>::type K; d << odr(K::Dim) << odr(K::DoF) << odr(K::RepSize) << (BSz<K>::get() < 0 ? BSz<T>::get() : BSz<K>::get()) << std::max(K::DoF, K::RepSize);'),
    ('Zero', 's', 'd << T::Zero();'),
    ('Tangent::Random', 's', 'srand(7); d << (int)T::Random().size();'),
    ('Generator', 's', 'd << T::Generator(0);'),
    ('InnerWeights', 's', 'd << T::InnerWeights();'),
    ('Bracket', 's', 'd << T::Bracket(to, so);'),
    ('Vee', 's', 'd << T::Vee(to.hat());'),
    # ---- mutating tangent members -----------------------------------------------------------------------
    ('setZero', 'tm', 't.setZero(); d << t;'),
    ('tangent-setRandom', 'tm', 'srand(7); t.setRandom(); d << (int)t.size();'),
    ('setVee', 'tm', 't.setVee(so.hat()); d << t;'),
    ('tangent=', 'tm', 't = s; d << t; t = so.coeffs(); d << t;'),
    ('tangent+=', 'tm', 't += s; d << t; t -= s; d << t; t += so.coeffs(); t -= so.coeffs(); d << t;'),
    ('tangent*=', 'tm', 't *= S(2); d << t; t /= S(2); d << t;'),
    ('tangent-comma-initialiser', 'tm', 't.setZero(); t << so.coeffs(); d << t;'),
    ('tangent<<', 'tm', 'typename T::DataType v = so.coeffs(); t.coeffs() = v; d << t;'),
    # ---- functions.h --------------------------------------------------------------------------------------
    ('manif::coeffs', 'g', 'd << manif::coeffs(X) << manif::data(X)[0];'),
    ('manif::coeffs(tangent)', 't', 'd << manif::coeffs(t) << manif::data(t)[0];'),
    ('manif::identity', 'gm', 'manif::identity(X); d << X;'),
    ('manif::Identity', 's', 'd << manif::Identity<G>();'),
    ('manif::zero', 'tm', 'manif::zero(t); d << t;'),
    ('manif::Zero', 's', 'd << manif::Zero<T>();'),
    ('manif::random', 'gm', 'srand(7); manif::random(X); d << (int)X.size();'),
    ('manif::random(tangent)', 'tm', 'srand(7); manif::random(t); d << (int)t.size();'),
    ('manif::Random', 's', 'srand(7); d << (int)manif::Random<G>().size() << (int)manif::Random<T>().size();'),
    ('manif::inverse', 'g', 'd << manif::inverse(X) << manif::inverse(X, Ja) << Ja;'),
    ('manif::rplus', 'g', 'd << manif::rplus(X, t) << manif::rplus(X, t, Ja, Jb) << Ja << Jb;'),
    ('manif::lplus', 'g', 'd << manif::lplus(X, t) << manif::lplus(X, t, Ja, Jb) << Ja << Jb;'),
    ('manif::plus', 'g', 'd << manif::plus(X, t) << manif::plus(X, t, Ja, Jb) << Ja << Jb;'),
    ('manif::rminus', 'g', 'd << manif::rminus(X, Y) << manif::rminus(X, Y, Ja, Jb) << Ja << Jb;'),
    ('manif::lminus', 'g', 'd << manif::lminus(X, Y) << manif::lminus(X, Y, Ja, Jb) << Ja << Jb;'),
    ('manif::minus', 'g', 'd << manif::minus(X, Y) << manif::minus(X, Y, Ja, Jb) << Ja << Jb;'),
    ('manif::log', 'g', 'd << manif::log(X) << manif::log(X, Ja) << Ja << manif::lift(X);'),
    ('manif::exp', 't', 'd << manif::exp(t) << manif::exp(t, Ja) << Ja << manif::retract(t);'),
    ('manif::compose', 'g', 'd << manif::compose(X, Y) << manif::compose(X, Y, Ja, Jb) << Ja << Jb;'),
    ('manif::between', 'g', 'd << manif::between(X, Y) << manif::between(X, Y, Ja, Jb) << Ja << Jb;'),
    ('manif::act', 'g', 'd << manif::act(X, p) << manif::act(X, p, Jm, Jp) << Jm << Jp;'),
    # ---- algorithms ------------------------------------------------------------------------------------------
    ('average', 's', 'd << manif::average(cloud);'),
    ('average_biinvariant', 's', 'd << manif::average_biinvariant(cloud);'),
    ('average_frechet_left', 's', 'd << manif::average_frechet_left(cloud);'),
    ('average_frechet_right', 's', 'd << manif::average_frechet_right(cloud);'),
    ('interpolate(SLERP)', 'g', 'd << manif::interpolate(X, Y, S(0.25));'),
    ('interpolate(CUBIC)', 'g', 'd << manif::interpolate(X, Y, S(0.25), manif::INTERP_METHOD::CUBIC, to, so);'),
    ('interpolate(CNSMOOTH)', 'g', 'd << manif::interpolate(X, Y, S(0.25), manif::INTERP_METHOD::CNSMOOTH, to, so);'),
    ('interpolate_smooth(m)', 'g', 'd << manif::interpolate_smooth(X, Y, S(0.25), 2, to, so);'),
    ('decasteljau', 's', 'auto c = manif::decasteljau(cloud, 3, 2, true); d << (int)c.size() << c.back();'),
]

# 'base' / 'cmapbase': the operands are seen through references to the CRTP bases (LieGroupBase<D>& / TangentBase<D>&), the way generic
# client code is written (docs/pages/cpp/Writing-generic-code.md): this instantiates the base-class forwarders, which calls on concrete types bypass
STORAGES = {'g': ['own', 'map', 'cmap', 'base', 'cmapbase'], 't': ['own', 'map', 'cmap', 'base', 'cmapbase'], 'gm': ['own', 'map', 'base', 'mapbase'], 'tm': ['own', 'map', 'base', 'mapbase'], 's': ['own']}
# entries that copy their operand by its static type (decltype) make no sense through a base reference (the bases are not copyable by design)
NO_BASE = set(['assign-from-temporary', 'view=temporary', 'tangent-assign-from-temporary', 'tangent-view=temporary', 'data()-on-non-const-variable', 'tangent-data()-on-non-const-variable',
               'transform'])   # transform() is a member of the concrete group bases only; LieGroupBase does not declare it

PRELUDE = r'''// generated by harness/gen_c19.py -- do not edit
#include <manif/manif.h>
#include <manif/functions.h>
#include <manif/algorithms/average.h>
#include <manif/algorithms/interpolation.h>
#include <manif/algorithms/decasteljau.h>
#include <cstdio>
#include <cstring>
#include <sstream>
#include <vector>
#include <string>
#include <map>
#include "grouplist.h"
typedef MonG G; typedef typename G::Tangent T; typedef typename G::Scalar S;
typedef typename G::Jacobian Jac;

struct Dg {  // digest of a result: the scalars, bit-exact
  std::vector<double> v;
  Dg& operator|(int x) { v.push_back(x); return *this; }
  Dg& operator|(float x) { v.push_back(x); return *this; }
  Dg& operator|(double x) { v.push_back(x); return *this; }
  template <class D> Dg& operator|(const Eigen::MatrixBase<D>& m) { for (int j = 0; j < m.cols(); ++j) for (int i = 0; i < m.rows(); ++i) v.push_back((double)m(i, j)); return *this; }
  template <class D> Dg& operator|(const manif::LieGroupBase<D>& x) { return *this | x.coeffs(); }
  template <class D> Dg& operator|(const manif::TangentBase<D>& x) { return *this | x.coeffs(); }
};
// odr-use of the public static constants: binding to a reference needs their out-of-class definition in C++11/14 ("compiles and links")
__attribute__((noinline)) static int odr(const int& x) { return x; }
__attribute__((noinline)) static int odrz(const std::size_t& x) { return (int)x; }
template <class K, class = void> struct BSz { static int get() { return -1; } };
template <class K> struct BSz<K, decltype(void(K::BundleSize))> { static int get() { return odrz(K::BundleSize); } };
struct Fixture {
  G Xo, Yo; T to, so; typename G::Vector p;
  typename G::DataType bx, by; typename T::DataType bt, bs;
  std::vector<G> cloud;
  Fixture() {
    srand(12345);
    to = T::Random() * S(0.3); so = T::Random() * S(0.2);
    Xo = (T::Random() * S(0.5)).exp(); Yo = Xo.rplus(so);
    p = G::Vector::Random();
    cloud.push_back(Xo); cloud.push_back(Yo); cloud.push_back(Xo.rplus(to * S(0.5))); cloud.push_back(Yo.rplus(to * S(0.25)));
    reset();
  }
  void reset() { bx = Xo.coeffs(); by = Yo.coeffs(); bt = to.coeffs(); bs = so.coeffs(); }
};
static std::map<std::string, std::map<std::string, std::vector<double>>> RES;
static FILE* OUT = stdout;
static void report(const char* entry, const char* storage, const Dg& d) {
  RES[entry][storage] = d.v;
  bool finite = true; for (double x : d.v) if (!(x == x) || x > 1e300 || x < -1e300) finite = false;
  fprintf(OUT, "{\"t\":\"exec\",\"entry\":\"%s\",\"storage\":\"%s\",\"n\":%d,\"finite\":%d}\n", entry, storage, (int)d.v.size(), finite ? 1 : 0);
  // cells named "forwards:..." compare an alias with the canonical member it is documented to stand for: every recorded value must be 1
  if (std::strncmp(entry, "forwards:", 9) == 0) for (double x : d.v) if (x != 1) { fprintf(OUT, "{\"t\":\"mismatch\",\"entry\":\"%s\",\"storage\":\"%s\"}\n", entry, storage); break; }
}
// bit-equality of two results (groups, tangents, matrices), as 0/1
template <class A, class B> static int same(const A& a, const B& b) { Dg x, y; x | a; y | b; return x.v.size() == y.v.size() && (x.v.empty() || std::memcmp(x.v.data(), y.v.data(), x.v.size() * sizeof(double)) == 0) ? 1 : 0; }
'''

CELL = r'''
static void cell_%(k)d_%(st)s(Fixture& F) {
  F.reset();
  Jac Ja, Jb; Eigen::Matrix<S, G::Dim, G::DoF> Jm; Eigen::Matrix<S, G::Dim, G::Dim> Jp;
  const G& Xo = F.Xo; const G& Yo = F.Yo; (void)Yo; const T& to = F.to; const T& so = F.so; const typename G::Vector& p = F.p; const std::vector<G>& cloud = F.cloud;
  (void)Ja; (void)Jb; (void)Jm; (void)Jp; (void)Xo; (void)to; (void)so; (void)p; (void)cloud;
%(decl)s
  Dg d;
  { %(code)s }
  report("%(name)s", "%(st)s", d);
}
'''

DECL = {
    ('g', 'own'): '  const G X(F.Xo); const G Y(F.Yo); const T t(F.to); (void)X; (void)Y; (void)t;',
    ('g', 'map'): '  Eigen::Map<G> Xm_(F.bx.data()); Eigen::Map<G> Ym_(F.by.data()); Eigen::Map<T> tm_(F.bt.data()); const Eigen::Map<G>& X = Xm_; const Eigen::Map<G>& Y = Ym_; const Eigen::Map<T>& t = tm_; (void)X; (void)Y; (void)t;',
    ('g', 'cmap'): '  const Eigen::Map<const G> X(F.bx.data()); const Eigen::Map<const G> Y(F.by.data()); const Eigen::Map<const T> t(F.bt.data()); (void)X; (void)Y; (void)t;',
    ('t', 'own'): '  const T t(F.to); const T s(F.so); (void)t; (void)s;',
    ('t', 'map'): '  Eigen::Map<T> tm_(F.bt.data()); Eigen::Map<T> sm_(F.bs.data()); const Eigen::Map<T>& t = tm_; const Eigen::Map<T>& s = sm_; (void)t; (void)s;',
    ('t', 'cmap'): '  const Eigen::Map<const T> t(F.bt.data()); const Eigen::Map<const T> s(F.bs.data()); (void)t; (void)s;',
    ('gm', 'own'): '  G X(F.Xo); const G Y(F.Yo); const T t(F.to); (void)X; (void)Y; (void)t;',
    ('gm', 'map'): '  Eigen::Map<G> X(F.bx.data()); const Eigen::Map<const G> Y(F.by.data()); const Eigen::Map<const T> t(F.bt.data()); (void)X; (void)Y; (void)t;',
    ('tm', 'own'): '  T t(F.to); const T s(F.so); (void)t; (void)s;',
    ('tm', 'map'): '  Eigen::Map<T> t(F.bt.data()); const Eigen::Map<const T> s(F.bs.data()); (void)t; (void)s;',
    ('s', 'own'): '',
    ('g', 'base'): '  const G Xb_(F.Xo); const G Yb_(F.Yo); const T tb_(F.to); const manif::LieGroupBase<G>& X = Xb_; const manif::LieGroupBase<G>& Y = Yb_; const manif::TangentBase<T>& t = tb_; (void)X; (void)Y; (void)t;',
    ('g', 'cmapbase'): '  const Eigen::Map<const G> Xb_(F.bx.data()); const Eigen::Map<const G> Yb_(F.by.data()); const Eigen::Map<const T> tb_(F.bt.data()); const manif::LieGroupBase<Eigen::Map<const G>>& X = Xb_; const manif::LieGroupBase<Eigen::Map<const G>>& Y = Yb_; const manif::TangentBase<Eigen::Map<const T>>& t = tb_; (void)X; (void)Y; (void)t;',
    ('t', 'base'): '  const T tb_(F.to); const T sb_(F.so); const manif::TangentBase<T>& t = tb_; const manif::TangentBase<T>& s = sb_; (void)t; (void)s;',
    ('t', 'cmapbase'): '  const Eigen::Map<const T> tb_(F.bt.data()); const Eigen::Map<const T> sb_(F.bs.data()); const manif::TangentBase<Eigen::Map<const T>>& t = tb_; const manif::TangentBase<Eigen::Map<const T>>& s = sb_; (void)t; (void)s;',
    ('gm', 'base'): '  G Xb_(F.Xo); const G Yb_(F.Yo); const T tb_(F.to); manif::LieGroupBase<G>& X = Xb_; const manif::LieGroupBase<G>& Y = Yb_; const manif::TangentBase<T>& t = tb_; (void)X; (void)Y; (void)t;',
    ('gm', 'mapbase'): '  Eigen::Map<G> Xb_(F.bx.data()); const Eigen::Map<const G> Yb_(F.by.data()); const Eigen::Map<const T> tb_(F.bt.data()); manif::LieGroupBase<Eigen::Map<G>>& X = Xb_; const manif::LieGroupBase<Eigen::Map<const G>>& Y = Yb_; const manif::TangentBase<Eigen::Map<const T>>& t = tb_; (void)X; (void)Y; (void)t;',
    ('tm', 'base'): '  T tb_(F.to); const T sb_(F.so); manif::TangentBase<T>& t = tb_; const manif::TangentBase<T>& s = sb_; (void)t; (void)s;',
    ('tm', 'mapbase'): '  Eigen::Map<T> tb_(F.bt.data()); const Eigen::Map<const T> sb_(F.bs.data()); manif::TangentBase<Eigen::Map<T>>& t = tb_; const manif::TangentBase<Eigen::Map<const T>>& s = sb_; (void)t; (void)s;',
}


def digest_ops(code):
    """the digest sink uses operator| (manif's generic stream operator<< would be ambiguous)"""
    out = []
    for st in code.split(';'):
        if st.strip().startswith('d <<'): st = st.replace(' << ', ' | ')
        out.append(st)
    return ';'.join(out)


def cells():
    out = []
    for k, (name, kind, code) in enumerate(ENTRIES):
        code = digest_ops(code)
        for st in STORAGES[kind]:
            if st.endswith('base') and name in NO_BASE: continue
            out.append((k, name, kind, st, code))
    return out


def emit(exclude=(), only=None):
    """exclude: set of (entry name, storage); only: (entry name, storage) -> single-cell TU (for -fsyntax-only localisation)."""
    src = [PRELUDE]
    calls = []
    for k, name, kind, st, code in cells():
        if only is not None and (name, st) != only: continue
        if (name, st) in exclude: continue
        src.append(CELL % {'k': k, 'st': st, 'decl': DECL[(kind, st)], 'code': code, 'name': name})
        calls.append('  cell_%d_%s(F);' % (k, st))
    src.append('''
int main(int argc, char** argv) {
  if (argc > 1) OUT = fopen(argv[1], "w");
  Fixture F;
%s
  // every view cell must reproduce the owning cell bit for bit
  int mism = 0;
  for (auto& e : RES) {
    auto own = e.second.find("own");
    for (auto& s : e.second) {
      if (s.first == "own" || own == e.second.end()) continue;
      bool same = s.second.size() == own->second.size() && std::memcmp(s.second.data(), own->second.data(), s.second.size() * sizeof(double)) == 0;
      if (!same) { ++mism; fprintf(OUT, "{\\"t\\":\\"mismatch\\",\\"entry\\":\\"%%s\\",\\"storage\\":\\"%%s\\"}\\n", e.first.c_str(), s.first.c_str()); }
    }
  }
  fprintf(OUT, "{\\"t\\":\\"done\\",\\"cells\\":%%d,\\"mismatch\\":%%d}\\n", %d, mism);
  if (OUT != stdout) fclose(OUT);
  return 0;
}
''' % ('\n'.join(calls), len(calls)))
    return '\n'.join(src)


if __name__ == '__main__':
    import sys
    sys.stdout.write(emit())
