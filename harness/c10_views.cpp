// C10 monitor: views over external memory behave exactly like owning objects (bit-exact differential monitor + guard zones + ASan red-zones).
#define MON_NAME "c10_views"
#include "mon.h"
#include <cstring>
#include <cstdlib>

static const double PI = 3.14159265358979323846;
typedef typename MonG::Jacobian MJ;
typedef std::vector<MonS> Dig;
static const int REP = MonG::RepSize, DOF = MonG::DoF;

template <class A> static void put(Dig& d, const A& a) { for (int j = 0; j < a.cols(); ++j) for (int i = 0; i < a.rows(); ++i) d.push_back(a(i, j)); }
static bool bitEqual(const MonG& a, const MonG& b) { return std::memcmp(a.data(), b.data(), MonG::RepSize * sizeof(MonS)) == 0; }
static bool sameBits(const Dig& a, const Dig& b) { return a.size() == b.size() && (a.empty() || std::memcmp(a.data(), b.data(), a.size() * sizeof(MonS)) == 0); }

// ---- guarded storage ------------------------------------------------------------------------------
// (i) exactly-sized heap block (ASan red-zones catch any access outside it), at 16-byte or 8-byte-only (4 for float) alignment
// (ii) the viewed scalars embedded between canaries that are compared bit for bit after every call
struct Guarded {
  int n, kind; void* raw; MonS* p; static const int PAD = 6;
  static MonS canary(int i) { MonS v; unsigned char b[sizeof(MonS)]; for (size_t k = 0; k < sizeof(MonS); ++k) b[k] = (unsigned char)(0xA5 ^ (i * 31 + k * 7)); b[sizeof(MonS) - 1] = 0x7f; b[sizeof(MonS) - 2] |= 0xf8; std::memcpy(&v, b, sizeof v); return v; }  // NaN payloads
  Guarded(int n_, int kind_) : n(n_), kind(kind_) {
    if (kind == 0) { raw = std::malloc(n * sizeof(MonS)); p = (MonS*)raw; }
    else if (kind == 1) { raw = std::malloc(n * sizeof(MonS) + sizeof(MonS)); p = (MonS*)raw + 1; *((MonS*)raw) = canary(-1); }   // misaligned w.r.t. 16 bytes, right end exact
    else { raw = std::malloc((n + 2 * PAD) * sizeof(MonS)); p = (MonS*)raw + PAD; for (int i = 0; i < PAD; ++i) { ((MonS*)raw)[i] = canary(i); p[n + i] = canary(100 + i); } }
  }
  ~Guarded() { std::free(raw); }
  bool intact() const {
    if (kind == 0) return true;
    if (kind == 1) { MonS c = canary(-1); return std::memcmp(raw, &c, sizeof c) == 0; }
    for (int i = 0; i < PAD; ++i) { MonS a = canary(i), b = canary(100 + i); if (std::memcmp((MonS*)raw + i, &a, sizeof a) || std::memcmp(p + n + i, &b, sizeof b)) return false; }
    return true;
  }
  template <class V> void load(const V& v) { for (int i = 0; i < n; ++i) p[i] = v(i); }
  Dig dump() const { return Dig(p, p + n); }
  Guarded(const Guarded&) = delete;
};

static long long gCase; static const Args* gArgs; static std::string gCell; static J* gBase;
static void viol(const std::string& key) { LOG.viol(key + "/" + GN(), 1, caseJ(*gArgs, gCase).s("cell", gCell).raw("inputs", gBase->str()).str()); }

// every non-mutating operation of the API on (X, Y, t), results concatenated
template <class GX, class GY, class TT, class TS> static Dig constOps(const GX& X, const GY& Y, const TT& t, const TS& s, const typename MonG::Vector& p) {
  Dig d; MJ Ja, Jb;
  put(d, X.inverse(Ja).coeffs()); put(d, Ja);
  put(d, X.log(Ja).coeffs()); put(d, Ja);
  put(d, X.compose(Y, Ja, Jb).coeffs()); put(d, Ja); put(d, Jb);
  put(d, (X * Y).coeffs());
  put(d, X.between(Y, Ja, Jb).coeffs()); put(d, Ja); put(d, Jb);
  put(d, X.rminus(Y, Ja, Jb).coeffs()); put(d, Ja); put(d, Jb);
  put(d, X.lminus(Y, Ja, Jb).coeffs()); put(d, Ja); put(d, Jb);
  put(d, (X - Y).coeffs());
  put(d, X.rplus(t, Ja, Jb).coeffs()); put(d, Ja); put(d, Jb);
  put(d, X.lplus(t, Ja, Jb).coeffs()); put(d, Ja); put(d, Jb);
  put(d, (X + t).coeffs());
  { Eigen::Matrix<MonS, MonG::Dim, MonG::DoF> Jm; Eigen::Matrix<MonS, MonG::Dim, MonG::Dim> Jp; put(d, X.act(p, Jm, Jp)); put(d, Jm); put(d, Jp); }
  put(d, X.adj());
  d.push_back(X.isApprox(Y) ? 1 : 0); d.push_back((X == X) ? 1 : 0);
  put(d, X.coeffs()); d.push_back(X[0]); d.push_back(X.data()[REP - 1]);
  put(d, t.exp(Ja).coeffs()); put(d, Ja);
  put(d, t.hat()); put(d, t.rjac()); put(d, t.ljac()); put(d, t.rjacinv()); put(d, t.ljacinv()); put(d, t.smallAdj());
  put(d, (t + s).coeffs()); put(d, (t - s).coeffs()); put(d, (-t).coeffs()); put(d, (t * MonS(3)).coeffs());
  d.push_back(t.inner(s)); d.push_back(t.weightedNorm()); put(d, t.bracket(s).coeffs());
  put(d, t.plus(s, Ja, Jb).coeffs()); put(d, (t + Y).coeffs());
  d.push_back(t.isApprox(s) ? 1 : 0); d.push_back(t[0]); d.push_back(t.data()[DOF - 1]);
  put(d, MonG(X).coeffs());                    // copy construction from any kind
  { MonG Z; Z = X; put(d, Z.coeffs()); }       // cross-kind assignment into an owning object
  { MonT z; z = t; put(d, z.coeffs()); put(d, MonT(t).coeffs()); }
  return d;
}

// normalize() exists for the groups that carry rotation data (not Rn, not Bundle): detected, not assumed
template <class T, class = void> struct HasNormalize : std::false_type {};
template <class T> struct HasNormalize<T, decltype(void(std::declval<T&>().normalize()))> : std::true_type {};
template <class V, class G> static void doNormalize(V& v, G& own, std::true_type) { v.normalize(); own.normalize(); }
template <class V, class G> static void doNormalize(V&, G&, std::false_type) {}

// ---- internal sub-views of the composite groups: asSO3() (const and mutable overload) must alias exactly the rotation coefficients ----
template <class T, class = void> struct HasAsSO3 : std::false_type {};
template <class T> struct HasAsSO3<T, decltype(void(std::declval<T&>().asSO3()))> : std::true_type {};
// off = index of the first rotation coefficient in the documented layout (from the reference descriptors), len = 4 (quaternion) or 3 (rotation vector)
template <class O> static std::string subViewCheck(O& obj, int off, int len, std::true_type) {
  typedef typename std::remove_const<typename std::remove_reference<decltype(obj.coeffs()(0))>::type>::type Sc;
  const O& cobj = obj;
  auto mv = obj.asSO3(); auto cv = cobj.asSO3();
  if ((const Sc*)mv.data() - (const Sc*)obj.data() != off) return "mutable asSO3() starts at coefficient " + std::to_string((const Sc*)mv.data() - (const Sc*)obj.data()) + ", expected " + std::to_string(off);
  if ((const Sc*)cv.data() - (const Sc*)cobj.data() != off) return "const asSO3() starts at coefficient " + std::to_string((const Sc*)cv.data() - (const Sc*)cobj.data()) + ", expected " + std::to_string(off);
  for (int k = 0; k < len; ++k) if (!(mv.coeffs()(k) == obj.coeffs()(off + k)) || !(cv.coeffs()(k) == obj.coeffs()(off + k))) return "asSO3() reads other coefficients than the rotation part";
  // a write through the mutable sub-view changes exactly those coefficients
  std::vector<Sc> before(obj.coeffs().size()); for (int k = 0; k < (int)before.size(); ++k) before[k] = obj.coeffs()(k);
  auto rot = cv.coeffs().eval(); Sc tmp = rot(0); rot(0) = rot(len - 2); rot(len - 2) = tmp;   // a permutation keeps the norm
  mv.coeffs() = rot;
  for (int k = 0; k < (int)before.size(); ++k) {
    bool inside = k >= off && k < off + len;
    Sc want = inside ? rot(k - off) : before[k];
    if (!(obj.coeffs()(k) == want)) return "write through mutable asSO3() changed coefficient " + std::to_string(k) + (inside ? " wrongly" : " outside the rotation part");
  }
  for (int k = 0; k < (int)before.size(); ++k) obj.coeffs()(k) = before[k];
  return "";
}
template <class O> static std::string subViewCheck(O&, int, int, std::false_type) { return ""; }

// ---- the whole assignment family: {owning, Map} target x {owning, Map, Map<const>, Eigen} source x {lvalue, rvalue} ---------------
// after every form: the target's memory holds the source's bits, nothing adjacent changed, an lvalue source is untouched, and the
// target view still views its own buffer (a later write through it lands there and not in the source's memory)
template <class O> static void assignMatrix(const std::string& tag, const O& A, const O& B, int ka, int kb) {
  const int N = (int)A.coeffs().size();
  Guarded ba(N, ka), bb(N, kb);
  Dig wantB, wantA; put(wantB, B.coeffs()); put(wantA, A.coeffs());
  int form = 0;
  auto reset = [&]() { ba.load(A.coeffs()); bb.load(B.coeffs()); };
  auto judge = [&](const char* what, const Dig& got, bool srcMustStay, const MonS* viewData) {
    bool val = sameBits(got, wantB), guards = ba.intact() && bb.intact(), src = !srcMustStay || sameBits(bb.dump(), wantB), seat = viewData == nullptr || viewData == ba.p;
    bool ok = val && guards && src && seat;
    LOG.cell("assign-matrix/" + tag + "/" + what + "/" + GN(), ok ? 0 : 1);
    if (!ok) viol(std::string(!guards ? "assignment-wrote-outside-buffer/" : !val ? "assignment-lost-coefficients/" : !src ? "assignment-changed-source/" : "assignment-reseated-view/") + tag + "/" + what);
    ++form;
  };
  // a write through the target view after the assignment must still land in the target's buffer
  auto later = [&](const char* what, Eigen::Map<O>& V) {
    V = A;
    bool ok = sameBits(ba.dump(), wantA) && sameBits(bb.dump(), wantB) && ba.intact() && bb.intact() && V.data() == ba.p;
    LOG.cell("assign-matrix/" + tag + "/later-write-after-" + what + "/" + GN(), ok ? 0 : 1);
    if (!ok) viol(std::string("assignment-reseated-view/") + tag + "/later-write-after-" + what);
  };
  { // target = view over ba
    reset(); { Eigen::Map<O> V(ba.p); V = B; judge("Map=owning", ba.dump(), false, V.data()); later("Map=owning", V); }
    reset(); { Eigen::Map<O> V(ba.p); O tmp = B; V = std::move(tmp); judge("Map=move(owning)", ba.dump(), false, V.data()); later("Map=move(owning)", V); }
    reset(); { Eigen::Map<O> V(ba.p); Eigen::Map<O> S(bb.p); V = S; judge("Map=Map", ba.dump(), true, V.data()); later("Map=Map", V); }
    reset(); { Eigen::Map<O> V(ba.p); Eigen::Map<O> S(bb.p); V = std::move(S); judge("Map=move(Map)", ba.dump(), true, V.data()); later("Map=move(Map)", V); }
    reset(); { Eigen::Map<O> V(ba.p); V = Eigen::Map<O>(bb.p); judge("Map=temporary(Map)", ba.dump(), true, V.data()); later("Map=temporary(Map)", V); }
    reset(); { Eigen::Map<O> V(ba.p); Eigen::Map<const O> S(bb.p); V = S; judge("Map=Map<const>", ba.dump(), true, V.data()); later("Map=Map<const>", V); }
    reset(); { Eigen::Map<O> V(ba.p); V = Eigen::Map<const O>(bb.p); judge("Map=temporary(Map<const>)", ba.dump(), true, V.data()); later("Map=temporary(Map<const>)", V); }
    reset(); { Eigen::Map<O> V(ba.p); V = B.coeffs(); judge("Map=Eigen", ba.dump(), false, V.data()); later("Map=Eigen", V); }
    reset(); { Eigen::Map<O> V(ba.p); V = typename O::DataType(B.coeffs()); judge("Map=temporary(Eigen)", ba.dump(), false, V.data()); later("Map=temporary(Eigen)", V); }
    reset(); { Eigen::Map<O> V(ba.p); Eigen::Map<O> S(bb.p); V = S.coeffs(); judge("Map=Map.coeffs()", ba.dump(), true, V.data()); }
  }
  { // target = owning object
    auto own = [&](const O& T) { Dig d; put(d, T.coeffs()); return d; };
    reset(); { O T = A; T = B; judge("owning=owning", own(T), false, nullptr); }
    reset(); { O T = A; O tmp = B; T = std::move(tmp); judge("owning=move(owning)", own(T), false, nullptr); }
    reset(); { O T = A; Eigen::Map<O> S(bb.p); T = S; judge("owning=Map", own(T), true, nullptr); }
    reset(); { O T = A; Eigen::Map<O> S(bb.p); T = std::move(S); judge("owning=move(Map)", own(T), true, nullptr); }
    reset(); { O T = A; T = Eigen::Map<O>(bb.p); judge("owning=temporary(Map)", own(T), true, nullptr); }
    reset(); { O T = A; Eigen::Map<const O> S(bb.p); T = S; judge("owning=Map<const>", own(T), true, nullptr); }
    reset(); { O T = A; T = Eigen::Map<const O>(bb.p); judge("owning=temporary(Map<const>)", own(T), true, nullptr); }
    reset(); { O T = A; T = B.coeffs(); judge("owning=Eigen", own(T), false, nullptr); }
    reset(); { O T = A; T = typename O::DataType(B.coeffs()); judge("owning=temporary(Eigen)", own(T), false, nullptr); }
    // construction of an owning object from every kind, lvalue and rvalue
    reset(); { Eigen::Map<O> S(bb.p); O T(S); judge("owning(Map)", own(T), true, nullptr); }
    reset(); { Eigen::Map<O> S(bb.p); O T(std::move(S)); judge("owning(move(Map))", own(T), true, nullptr); }
    reset(); { Eigen::Map<const O> S(bb.p); O T(S); judge("owning(Map<const>)", own(T), true, nullptr); }
    reset(); { O T((Eigen::Map<const O>(bb.p))); judge("owning(temporary(Map<const>))", own(T), true, nullptr); }
    reset(); { O tmp = B; O T(std::move(tmp)); judge("owning(move(owning))", own(T), false, nullptr); }
  }
}

// ---- sub-view to sub-view assignment: obj.sub() = other.sub() copies exactly that block, from a mutable (temporary Map) and from a const source
template <class O, class P, class Get> static std::string subAssign(O& obj, const P& other, int off, int len, const char* name, Get get) {
  typedef typename std::remove_const<typename std::remove_reference<decltype(obj.coeffs()(0))>::type>::type Sc;
  std::vector<Sc> before(obj.coeffs().size()); for (int k = 0; k < (int)before.size(); ++k) before[k] = obj.coeffs()(k);
  for (int pass = 0; pass < 2; ++pass) {
    P src = other;
    if (pass == 0) get(obj) = get(src);                      // temporary mutable view -> move assignment of the view type
    else { const P& csrc = src; get(obj) = get(csrc); }      // const view -> templated base assignment
    for (int k = 0; k < (int)before.size(); ++k) {
      bool inside = k >= off && k < off + len;
      Sc want = inside ? other.coeffs()(k) : before[k];
      if (std::memcmp(&want, &obj.coeffs()(k), sizeof(Sc)) != 0 && !(obj.coeffs()(k) == want))
        return std::string(name) + " = " + (pass ? "const " : "mutable ") + name + ": coefficient " + std::to_string(k) + (inside ? " not copied" : " outside the block changed");
      if (!(src.coeffs()(k) == other.coeffs()(k))) return std::string(name) + " assignment changed its source";
    }
    for (int k = 0; k < (int)before.size(); ++k) obj.coeffs()(k) = before[k];
  }
  return "";
}
struct GetSO3 { template <class T> auto operator()(T& o) const -> decltype(o.asSO3()) { return o.asSO3(); } };
template <int I> struct GetElem { template <class T> auto operator()(T& o) const -> decltype(o.template element<I>()) { return o.template element<I>(); } };

template <class T> struct IsBundle : std::false_type {};
template <class S, template <class> class... T> struct IsBundle<manif::Bundle<S, T...>> : std::true_type {};
template <int I, int N> struct ElemAssign {
  template <class OG, class OT> static std::string run(OG& xg, const MonG& yg, OT& xt, const MonT& yt) {
    const ref::Group& g = RG();
    std::string r1 = subAssign(xg, yg, g.repOff[I], g.el[I].rep, "element<i>()", GetElem<I>());
    if (!r1.empty()) return "group element " + std::to_string(I) + ": " + r1;
    std::string r2 = subAssign(xt, yt, g.dofOff[I], g.el[I].dof, "element<i>()", GetElem<I>());
    if (!r2.empty()) return "tangent element " + std::to_string(I) + ": " + r2;
    return ElemAssign<I + 1, N>::run(xg, yg, xt, yt);
  }
};
template <int N> struct ElemAssign<N, N> { template <class OG, class OT> static std::string run(OG&, const MonG&, OT&, const MonT&) { return ""; } };
template <class G> struct BundleN { static const int value = 0; };
template <class S, template <class> class... T> struct BundleN<manif::Bundle<S, T...>> { static const int value = (int)sizeof...(T); };

template <class OG, class VG, class OT, class VT> static std::string so3Assign(OG& Xo, VG& Vx, const MonG& Y, OT& to, VT& Vt, const MonT& s, int rc, int ri, std::true_type) {
  std::string q;
  q = subAssign(Xo, Y, rc, 4, "asSO3()", GetSO3()); if (!q.empty()) return "owning group: " + q;
  q = subAssign(Vx, Y, rc, 4, "asSO3()", GetSO3()); if (!q.empty()) return "viewed group: " + q;
  q = subAssign(to, s, ri, 3, "asSO3()", GetSO3()); if (!q.empty()) return "owning tangent: " + q;
  q = subAssign(Vt, s, ri, 3, "asSO3()", GetSO3()); if (!q.empty()) return "viewed tangent: " + q;
  return "";
}
template <class OG, class VG, class OT, class VT> static std::string so3Assign(OG&, VG&, const MonG&, OT&, VT&, const MonT&, int, int, std::false_type) { return ""; }
template <class OG, class OT> static std::string elemAssign(OG& xg, const MonG& yg, OT& xt, const MonT& yt, std::true_type) { return ElemAssign<0, BundleN<MonG>::value>::run(xg, yg, xt, yt); }
template <class OG, class OT> static std::string elemAssign(OG&, const MonG&, OT&, const MonT&, std::false_type) { return ""; }

void runOnce(const Args&) {}

void runCase(long long i, Prng& r, const Args& a) {
  const ref::Group& g = RG();
  gArgs = &a; gCase = i;
  GenOpt o; o.thetaMax = PI - 1e-3; o.nearPiMin = 1e-3; o.linMax = 1e3; o.exactCoeff = 0.03;
  std::string label, l2;
  const MonG X = groupFrom<MonG>(genElement<MonS>(g, r, o, label));
  const MonT t = tangentFrom<MonT>(genTangent<MonS>(g, r, o, l2)), s = tangentFrom<MonT>(genTangent<MonS>(g, r, o, l2));
  const MonG Y = r.coin(0.5) ? X.rplus(s) : groupFrom<MonG>(genElement<MonS>(g, r, o, l2));
  typename MonG::Vector p; { std::vector<MonS> pv = genPoint<MonS>(g, r, 1e3); for (int k = 0; k < g.dim; ++k) p(k) = pv[k]; }
  gCell = label;
  J base; base.vec("X", X.coeffs()).vec("Y", Y.coeffs()).vec("t", t.coeffs()).vec("s", s.coeffs()).vec("p", p); gBase = &base;

  const int kx = r.below(3), ky = r.below(3), kt = r.below(3);   // storage layout of each buffer
  Guarded bx(REP, kx), by(REP, ky), bt(DOF, kt), bs(DOF, r.below(3));
  bx.load(X.coeffs()); by.load(Y.coeffs()); bt.load(t.coeffs()); bs.load(s.coeffs());
  const Dig x0 = bx.dump(), y0 = by.dump(), t0 = bt.dump();

  // ---- reads: every operand kind combination gives the bits of the owning computation --------------------------------
  const Dig ref0 = constOps(X, Y, t, s, p);
  {
    Eigen::Map<MonG> mX(bx.p), mY(by.p); Eigen::Map<const MonG> cX(bx.p), cY(by.p);
    Eigen::Map<MonT> mt(bt.p), ms(bs.p); Eigen::Map<const MonT> ct(bt.p), cs(bs.p);
    struct { const char* n; Dig d; } v[] = {
      {"X=Map,Y=Map,t=Map", constOps(mX, mY, mt, ms, p)}, {"X=Map<const>,Y=Map<const>,t=Map<const>", constOps(cX, cY, ct, cs, p)},
      {"X=Map,Y=own,t=Map<const>", constOps(mX, Y, ct, s, p)}, {"X=own,Y=Map,t=Map", constOps(X, mY, mt, cs, p)},
      {"X=Map<const>,Y=Map,t=own", constOps(cX, mY, t, ms, p)}, {"X=own,Y=Map<const>,t=Map<const>", constOps(X, cY, ct, cs, p)},
      {"X=Map,Y=Map<const>,t=own", constOps(mX, cY, t, s, p)}, {"X=Map<const>,Y=own,t=Map", constOps(cX, Y, mt, ms, p)}};
    for (auto& e : v) {
      bool ok = sameBits(e.d, ref0);
      LOG.cell(std::string("read-equivalence/") + e.n + "/" + GN(), ok ? 0 : 1);
      if (!ok) viol(std::string("view-result-differs/") + e.n);
    }
    bool still = sameBits(bx.dump(), x0) && sameBits(by.dump(), y0) && sameBits(bt.dump(), t0) && bx.intact() && by.intact() && bt.intact() && bs.intact();
    LOG.cell("const-ops-leave-buffers-untouched/" + GN(), still ? 0 : 1);
    if (!still) viol("const-operation-wrote-to-viewed-memory");
  }
  // ---- writes through a mutable view change exactly RepSize (DoF) scalars ----------------------------------------------
  {
    Eigen::Map<MonG> V(bx.p); Eigen::Map<const MonG> cY(by.p); Eigen::Map<MonG> mY(by.p); Eigen::Map<MonT> vt(bt.p); Eigen::Map<const MonT> cs(bs.p);
    auto checkG = [&](const char* what, const MonG& want) {
      Dig got = bx.dump(), w; put(w, want.coeffs());
      bool ok = sameBits(got, w) && bx.intact() && by.intact() && sameBits(by.dump(), y0);
      LOG.cell(std::string("write/") + what + "/layout" + std::to_string(kx) + "/" + GN(), ok ? 0 : 1);
      if (!ok) viol(std::string(bx.intact() ? "view-write-wrong-value/" : "view-write-outside-buffer/") + what);
      bx.load(X.coeffs());
    };
    V = Y; checkG("assign(owning)", Y);
    V = cY; checkG("assign(Map<const>)", Y);
    V = mY; checkG("assign(Map)", Y);
    V = Y.coeffs(); checkG("assign(Eigen)", Y);
    { MonG tmp = Y; V = std::move(tmp); checkG("move-assign(owning)", Y); }
    V.setIdentity(); checkG("setIdentity", MonG::Identity());
    { srand(11); MonG rr = MonG::Random(); srand(11); V.setRandom(); checkG("setRandom", rr); }
    V += t; checkG("operator+=", X + t);
    V *= Y; checkG("operator*=", X * Y);
    V *= cY; checkG("operator*=(Map<const>)", X * Y);
    V = V * V; checkG("self-product", X * X);
    V.coeffs()(REP - 1) = Y.coeffs()(REP - 1); { MonG w = X; w.coeffs()(REP - 1) = Y.coeffs()(REP - 1); checkG("coeffs()(i)=", w); }
    V[0] = Y[0]; { MonG w = X; w[0] = Y[0]; checkG("operator[]=", w); }
    if (HasNormalize<MonG>::value) {   // normalize() through a view: scaled data in the buffer, same result as the owning object, nothing adjacent touched
      MonG w = X; MonS sc = (MonS)r.uni(0.5, 2.0);
      for (int b = 0; b < g.nb(); ++b) { const ref::Elem& e = g.el[b]; int nq = e.rot == 2 ? 2 : e.rot == 3 ? 4 : 0; for (int k = 0; k < nq; ++k) w.coeffs()(g.repOff[b] + e.rotCoef + k) *= sc; }
      bx.load(w.coeffs());
      doNormalize(V, w, HasNormalize<MonG>());
      checkG("normalize", w);
    }
    auto checkT = [&](const char* what, const MonT& want) {
      Dig got = bt.dump(), w; put(w, want.coeffs());
      bool ok = sameBits(got, w) && bt.intact() && bs.intact();
      LOG.cell(std::string("write/tangent-") + what + "/layout" + std::to_string(kt) + "/" + GN(), ok ? 0 : 1);
      if (!ok) viol(std::string(bt.intact() ? "view-write-wrong-value/tangent-" : "view-write-outside-buffer/tangent-") + what);
      bt.load(t.coeffs());
    };
    vt = s; checkT("assign(owning)", s);
    vt = cs; checkT("assign(Map<const>)", s);
    vt = s.coeffs(); checkT("assign(Eigen)", s);
    vt.setZero(); checkT("setZero", MonT::Zero());
    { srand(5); MonT rr = MonT::Random(); srand(5); vt.setRandom(); checkT("setRandom", rr); }
    vt += s; checkT("operator+=", t + s);
    vt -= cs; checkT("operator-=", t - s);
    vt *= MonS(2); checkT("operator*=", t * MonS(2));
    vt /= MonS(2); checkT("operator/=", t / MonS(2));
    vt += s.coeffs(); checkT("operator+=(Eigen)", t + s);
    vt.setVee(s.hat()); checkT("setVee", s);
    vt[0] = s[0]; { MonT w = t; w[0] = s[0]; checkT("operator[]=", w); }
  }
  // ---- internal sub-views (asSO3) of SE3 / SE_2_3 / SGal3 elements and tangents, on owning objects and on views ---------------------
  if (g.nb() == 1 && HasAsSO3<MonG>::value) {
    const ref::Elem& e = g.el[0];
    MonG Xo = X; MonT to = t; bx.load(X.coeffs()); bt.load(t.coeffs());
    Eigen::Map<MonG> Vx(bx.p); Eigen::Map<MonT> Vt(bt.p);
    std::string r1 = subViewCheck(Xo, e.rotCoef, 4, HasAsSO3<MonG>()), r2 = subViewCheck(Vx, e.rotCoef, 4, HasAsSO3<Eigen::Map<MonG>>());
    std::string r3 = subViewCheck(to, e.rotIdx[0], 3, HasAsSO3<MonT>()), r4 = subViewCheck(Vt, e.rotIdx[0], 3, HasAsSO3<Eigen::Map<MonT>>());
    bool ok = r1.empty() && r2.empty() && r3.empty() && r4.empty() && bx.intact() && bt.intact();
    LOG.cell("sub-view-asSO3/" + GN(), ok ? 0 : 1);
    if (!ok) LOG.viol("sub-view-asSO3-wrong/" + GN(), 1, caseJ(a, i).s("owning-group", r1).s("map-group", r2).s("owning-tangent", r3).s("map-tangent", r4).str());
    bx.load(X.coeffs()); bt.load(t.coeffs());
    // sub-view to sub-view assignment (X.asSO3() = Y.asSO3()), owning and viewed targets, groups and tangents
    std::string q = so3Assign(Xo, Vx, Y, to, Vt, s, e.rotCoef, e.rotIdx[0], HasAsSO3<MonG>());
    ok = q.empty() && bx.intact() && bt.intact();
    LOG.cell("sub-view-assign-asSO3/" + GN(), ok ? 0 : 1);
    if (!ok) LOG.viol("sub-view-assignment-wrong/asSO3/" + GN(), 1, caseJ(a, i).s("what", q).str());
    bx.load(X.coeffs()); bt.load(t.coeffs());
  }
  if (IsBundle<MonG>::value) {   // Bundle::element<i>() = other.element<i>() on owning bundles and on views of bundles
    MonG Xo = X; MonT to = t; bx.load(X.coeffs()); bt.load(t.coeffs());
    Eigen::Map<MonG> Vx(bx.p); Eigen::Map<MonT> Vt(bt.p);
    std::string q1 = elemAssign(Xo, Y, to, s, IsBundle<MonG>()), q2 = elemAssign(Vx, Y, Vt, s, IsBundle<MonG>());
    bool ok = q1.empty() && q2.empty() && bx.intact() && bt.intact();
    LOG.cell("sub-view-assign-element/" + GN(), ok ? 0 : 1);
    if (!ok) LOG.viol("sub-view-assignment-wrong/element/" + GN(), 1, caseJ(a, i).s("owning", q1).s("map", q2).str());
    bx.load(X.coeffs()); bt.load(t.coeffs());
  }
  // ---- the assignment family, groups and tangents ----------------------------------------------------------------------
  assignMatrix<MonG>("group", X, Y, kx, ky);
  assignMatrix<MonT>("tangent", t, s, kt, r.below(3));
  // ---- a view views: its data() is the user's pointer, and it sees what is written to the buffer after it was created ---------------
  {
    bx.load(X.coeffs()); bt.load(t.coeffs());
    const Eigen::Map<const MonG> cX(bx.p); Eigen::Map<MonG> mX(bx.p); const Eigen::Map<const MonT> ct(bt.p); Eigen::Map<MonT> mt(bt.p);
    const Eigen::Map<MonG>& kmX = mX; const Eigen::Map<MonT>& kmt = mt;
    bool ptr = cX.data() == bx.p && mX.data() == bx.p && kmX.data() == bx.p && cX.coeffs().data() == bx.p && mX.coeffs().data() == bx.p && kmX.coeffs().data() == bx.p
            && ct.data() == bt.p && mt.data() == bt.p && kmt.data() == bt.p && ct.coeffs().data() == bt.p && mt.coeffs().data() == bt.p && kmt.coeffs().data() == bt.p;
    LOG.cell("view-data-is-user-pointer/" + GN(), ptr ? 0 : 1);
    if (!ptr) viol("view-data-is-not-the-user-pointer");
    // write Y / s into the buffers (once through the mutable view, once directly) while the const views exist
    const Dig refY = constOps(Y, X, s, t, p);
    for (int how = 0; how < 2; ++how) {
      bx.load(X.coeffs()); bt.load(t.coeffs());
      if (how == 0) { mX = Y; mt = s; } else { bx.load(Y.coeffs()); bt.load(s.coeffs()); }
      Guarded bx2(REP, 2), bt2(DOF, 2); bx2.load(X.coeffs()); bt2.load(t.coeffs());
      const Eigen::Map<const MonG> oX(bx2.p); const Eigen::Map<const MonT> ot(bt2.p);
      bool live = sameBits(constOps(cX, oX, ct, ot, p), refY);
      LOG.cell(std::string("const-view-sees-later-writes/") + (how ? "direct" : "through-mutable-view") + "/" + GN(), live ? 0 : 1);
      if (!live) viol(std::string("const-view-is-stale/") + (how ? "direct-write" : "write-through-mutable-view"));
      // the same for a const view used as the argument of a binary operation
      Dig a1, a2; put(a1, X.compose(cX).coeffs()); put(a1, X.rminus(cX).coeffs()); put(a1, (s + ct).coeffs()); put(a2, X.compose(Y).coeffs()); put(a2, X.rminus(Y).coeffs()); put(a2, (s + s).coeffs());
      if (!sameBits(a1, a2)) viol(std::string("const-view-argument-is-stale/") + (how ? "direct-write" : "write-through-mutable-view"));
    }
    bx.load(X.coeffs()); bt.load(t.coeffs());
  }
  // ---- copy / move construction preserve coefficients exactly ----------------------------------------------------------
  {
    Eigen::Map<const MonG> cX(bx.p); Eigen::Map<MonG> mX(bx.p);
    MonG a1(cX), a2(mX), a3 = X; MonG a4(std::move(a3)); MonG a5(X.coeffs());
    Eigen::Map<MonG> m2(mX);   // copy of a view aliases the same memory
    bool ok = bitEqual(a1, X) && bitEqual(a2, X) && bitEqual(a4, X) && bitEqual(a5, X) && m2.data() == bx.p;
    LOG.cell("copy-move/" + GN(), ok ? 0 : 1);
    if (!ok) viol("copy-or-move-changed-coefficients");
  }
  if (i < 2) LOG.sample(caseJ(a, i).s("cell", label).i("layoutX", kx).i("layoutY", ky).raw("inputs", base.str()).str());
}
