// Independent reference model: generic matrix Lie groups in long double.
// Shares no code with manif: generator tables are typed in from the paper / header doc-comments,
// exp is a scaling-and-squaring Taylor series, log is obtained from an independent rotation logarithm
// (Shepperd quaternion extraction) plus a linear solve for the translation-like slots, Jacobians are
// 4th-order central differences of the definition f(X (+) d) = f(X) (+) J d evaluated on the model.
#pragma once
#include <Eigen/Dense>
#include <vector>
#include <string>
#include <cmath>
#include <functional>
#include <stdexcept>

namespace ref {

typedef long double LD;
typedef Eigen::Matrix<LD, -1, -1, 0, 24, 24> MatL;
typedef Eigen::Matrix<LD, -1, 1, 0, 64, 1> VecL;

static const LD PI_L = 3.14159265358979323846264338327950288419716939937510L;

enum Kind { K_SO2, K_SE2, K_SO3, K_SE3, K_SE23, K_SGAL3, K_RN };

// ---------------------------------------------------------------------------------------------
// Elementary group descriptor
// ---------------------------------------------------------------------------------------------
struct Elem {
  Kind kind; std::string name;
  int dof, rep, dim, alg, tra;   // DoF, RepSize, Dim (points), LieAlg rows, Transformation rows
  int rot;                        // size of rotation block (0, 2, 3)
  std::vector<int> rotIdx;        // tangent indices holding the rotation vector
  std::vector<int> linIdx;        // tangent indices of translation-like slots
  int timeIdx;                    // tangent index of the time slot (SGal3) or -1
  int rotCoef;                    // coefficient index of (re,im) or (x,y,z,w), -1 if none
  std::vector<int> linCoef;       // coefficient indices of linear parts (incl. time)
  std::vector<MatL> G;            // generators (alg x alg)

  static MatL E(int n, int r, int c);
  static MatL Skew3(int n, int a);
  static Elem make(Kind k, int n = 0);
  MatL hat(const VecL& t) const;                 // sum t_i G_i
  VecL vee(const MatL& A) const;                 // pick the documented coefficient positions
  LD theta(const VecL& t) const;
  MatL toMatL(const LD* c) const;                // coefficient vector -> group matrix (rotation data normalised in long double)
  LD normDevL(const LD* c) const;                // | ||rotation data|| - 1 |
  template <class V> MatL toMat(const V& c) const { std::vector<LD> x(rep); for (int i = 0; i < rep; ++i) x[i] = (LD)c[i]; return toMatL(x.data()); }
  template <class V> LD normDev(const V& c) const { std::vector<LD> x(rep); for (int i = 0; i < rep; ++i) x[i] = (LD)c[i]; return normDevL(x.data()); }
  MatL toTransform(const MatL& M) const;         // group matrix embedded in the documented transform() matrix
  VecL act(const MatL& M, const VecL& p) const;  // matrix applied to the point in homogeneous coordinates
  MatL inv(const MatL& M) const;                 // structured inverse
};

MatL expm(const MatL& A, LD theta);
MatL expm(const Elem& e, const VecL& t);
void rotLog3(const MatL& R, LD out[3]);
VecL logm(const Elem& e, const MatL& M);
MatL Adj(const Elem& e, const MatL& M);
MatL ad(const Elem& e, const VecL& t);
MatL Jr(const Elem& e, const VecL& t);
MatL Jl(const Elem& e, const VecL& t);
MatL invGeneral(const MatL& A);

struct Group {
  std::string name;
  std::vector<Elem> el;
  std::vector<int> dofOff, repOff, dimOff, algOff, traOff;
  int dof = 0, rep = 0, dim = 0, alg = 0, tra = 0;
  void add(const Elem& e);
  int nb() const { return (int)el.size(); }
};
typedef std::vector<MatL> GM;  // group element of the model = list of block matrices
typedef Eigen::Matrix<LD, -1, -1> BigL;  // unbounded size (bundles)

GM toGML(const Group& g, const LD* coeffs);
template <class V> GM toGM(const Group& g, const V& coeffs) { std::vector<LD> x(g.rep); for (int i = 0; i < g.rep; ++i) x[i] = (LD)coeffs[i]; return toGML(g, x.data()); }
VecL seg(const VecL& v, int off, int n);
GM gexp(const Group& g, const VecL& t);
VecL glog(const Group& g, const GM& m);
GM gmul(const GM& a, const GM& b);
GM ginv(const Group& g, const GM& a);
GM gid(const Group& g);
VecL gact(const Group& g, const GM& a, const VecL& p);
GM gplus(const Group& g, const GM& a, const VecL& t);      // a (+) t = a exp(t)
VecL gminus(const Group& g, const GM& a, const GM& b);     // a (-) b = log(b^-1 a)
LD gdiff(const GM& a, const GM& b);                        // max-abs difference
LD gscale(const GM& a);                                    // max(1, max-abs entry)
bool gfinite(const GM& a);
LD gtheta(const Group& g, const VecL& t);                  // max rotation angle over blocks
BigL gJr(const Group& g, const VecL& t);
BigL gAdj(const Group& g, const GM& a);
BigL gad(const Group& g, const VecL& t);
BigL ghat(const Group& g, const VecL& t);
BigL gtransform(const Group& g, const GM& a);
BigL ggen(const Group& g, int i);
BigL fdJac(int nin, int nout, LD h, const std::function<VecL(const VecL&)>& f);
BigL bigInverse(const BigL& A);
std::string selfCheck(const Elem& e, unsigned seed);

}  // namespace ref
