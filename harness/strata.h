// Stratified workload generator: where the reach of the monitors comes from.
// Rotation magnitude, linear magnitude, direction, hemisphere and production route are independent axes;
// every sample carries the label of the stratum cell it fell into so that coverage is *counted*.
#pragma once
#include "groups.h"
#include <limits>
#include <algorithm>

template <class S> struct Sc {
  static double u() { return (double)std::numeric_limits<S>::epsilon(); }
  static double eps() { return 100.0 * u(); }          // manif's Constants<S>::eps
  static double sw() { return std::sqrt(eps()); }       // |theta| at the theta^2 switch-over
};

// label of the rotation magnitude band
template <class S> std::string thetaBand(double th) {
  th = std::fabs(th);
  const double sw = Sc<S>::sw();
  if (th == 0) return "th=0";
  if (th < 1e-9) return "th<1e-9";
  if (th < sw) return "th<sw";
  if (th < 10 * sw) return "th[sw,10sw)";
  if (th < 1e-3 && 10 * sw < 1e-3) return "th[10sw,1e-3)";
  if (th < 0.1) return "th<0.1";
  if (th < 3.0) return "th<3";
  if (th <= 3.14159265358979323846) return "th[3,pi]";
  return "th>pi";
}
inline std::string linBand(double m) {
  m = std::fabs(m);
  if (m == 0) return "lin=0";
  if (m < 1e-5) return "lin~1e-8";
  if (m < 0.05) return "lin~1e-3";
  if (m < 50) return "lin~1";
  if (m < 5e4) return "lin~1e3";
  if (m < 5e7) return "lin~1e6";
  return "lin~1e9";
}

// violation keys use the label without its linear-magnitude band (one defect = one key, not six)
inline std::string dropLin(const std::string& l) { size_t p = l.rfind('/'); return p == std::string::npos ? l : l.substr(0, p); }

struct GenOpt {
  double thetaMax = 3.14159265358979323846 - 1e-6;  // largest rotation angle generated
  bool beyondPi = false;                              // allow (pi, 4pi) (tangents fed to exp only)
  double linMax = 1e6;                                // largest linear magnitude class
  bool hemi = true;                                   // elements: also produce the -q representative
  double nearPiMin = 1e-6;                            // closest approach to pi
  bool tinyTheta = true;                              // allow denormal / underflowing magnitudes
  double exactCoeff = 0;                              // probability of rotation data given by exact coefficients (pure quaternions w = +-0, signed zeros, 3-4-5 values)
};

// rotation magnitude: superset of strata, NOT read from the code under test
template <class S> double sampleTheta(Prng& r, const GenOpt& o) {
  const double sw = Sc<S>::sw(), eps = Sc<S>::eps(), u = Sc<S>::u();
  const bool f = sizeof(S) == 4;
  double th;
  for (int attempt = 0; attempt < 50; ++attempt) {
    double c = r.u01();
    if (c < 0.03) th = 0;
    else if (c < 0.05 && o.tinyTheta) th = f ? r.logu(1.5e-45, 1e-39) : r.logu(5e-324, 1e-310);
    else if (c < 0.07 && o.tinyTheta) th = f ? r.logu(1e-30, 1e-20) : r.logu(1e-200, 1e-160);
    else if (c < 0.10) th = r.logu(1e-30, 1e-9);
    else if (c < 0.22) {  // around the switch-overs a two-branch closed form may use
      static const double pw[] = {0.5, 1.0 / 3, 0.25, 1.0 / 6, 0.2, 1.0};
      double s = std::pow(eps, pw[r.below(6)]);
      static const double relu[] = {0, 1, -1, 2, -2, 1e3, -1e3};
      static const double rela[] = {1e-3, -1e-3, 1e-2, -1e-2};
      int q = r.below(11);
      th = q < 7 ? s * (1 + relu[q] * u) : s * (1 + rela[q - 7]);
      if (r.coin(0.3)) th = s * r.uni(0.5, 2.0);
    }
    else if (c < 0.55) th = r.logu(sw, 1e-2 > 3 * sw ? 1e-2 : 30 * sw);
    else if (c < 0.75) th = r.uni(1e-2, 3.0);
    else if (c < 0.87) {
      static const double d[] = {1e-3, 1e-4, 1e-5, 1e-6, 1e-7, 1e-9, 1e-12, 0};
      double dd = d[r.below(8)]; if (dd < o.nearPiMin) dd = o.nearPiMin;
      th = 3.14159265358979323846 - dd * r.uni(1.0, 3.0);
    }
    else if (c < 0.90) th = r.uni(3.0, 3.14159);
    else if (o.beyondPi) {
      double c2 = r.u01();
      if (c2 < 0.5) th = r.uni(3.1416, 4 * 3.14159265358979);
      else { static const double d[] = {1e-9, 1e-6, 1e-3}; th = 2 * 3.14159265358979323846 + r.sign() * d[r.below(3)]; }
    } else th = r.uni(1e-3, 3.0);
    if (th <= o.thetaMax || o.beyondPi) return th;
  }
  return 0.5;
}

inline void randDir(Prng& r, int n, double* d) {
  double s = 0;
  do { s = 0; for (int i = 0; i < n; ++i) { d[i] = r.gauss(); s += d[i] * d[i]; } } while (s < 1e-6);
  s = std::sqrt(s); for (int i = 0; i < n; ++i) d[i] /= s;
}
// direction of a rotation axis: random / coordinate axis / one component exactly zero
inline void rotAxis(Prng& r, double a[3]) {
  int c = r.below(10);
  if (c < 6) randDir(r, 3, a);
  else if (c < 8) { int k = r.below(3); a[0] = a[1] = a[2] = 0; a[k] = r.sign(); }
  else { randDir(r, 3, a); int k = r.below(3); a[k] = 0; double s = std::sqrt(a[0] * a[0] + a[1] * a[1] + a[2] * a[2]); for (int i = 0; i < 3; ++i) a[i] /= s; }
}
inline double sampleLinMag(Prng& r, double linMax) {
  static const double m[] = {0, 1e-8, 1e-3, 1, 1, 1e3, 1e6, 1e9};
  for (;;) { double v = m[r.below(8)]; if (v <= linMax) return v * r.uni(0.5, 1.0); }
}
inline double sampleTime(Prng& r) {
  static const double m[] = {0, 1e-3, 1, 1, 1e3};
  return m[r.below(5)] * r.uni(0.5, 1.0) * r.sign();
}
// fill a linear 3- (or n-) vector of magnitude mag: random / parallel / perpendicular to axis
inline void linVec(Prng& r, int n, double mag, const double* axis, double* out) {
  double d[16];
  int c = r.below(4);
  if (axis && n == 3 && c == 0) { for (int i = 0; i < 3; ++i) d[i] = axis[i]; }
  else if (axis && n == 3 && c == 1) {
    double q[3]; randDir(r, 3, q);
    d[0] = axis[1] * q[2] - axis[2] * q[1]; d[1] = axis[2] * q[0] - axis[0] * q[2]; d[2] = axis[0] * q[1] - axis[1] * q[0];
    double s = std::sqrt(d[0] * d[0] + d[1] * d[1] + d[2] * d[2]); if (s < 1e-6) randDir(r, 3, d); else for (int i = 0; i < 3; ++i) d[i] /= s;
  } else randDir(r, n, d);
  for (int i = 0; i < n; ++i) out[i] = mag * d[i];
}

// ---- tangents ---------------------------------------------------------------------------------
template <class S> void genTangentBlock(const ref::Elem& e, Prng& r, const GenOpt& o, bool stratified, double* t, std::string& label) {
  double th = stratified ? sampleTheta<S>(r, o) : r.uni(0, std::min(3.0, o.thetaMax));
  double axis[3] = {0, 0, 1};
  if (e.rot == 2) t[e.rotIdx[0]] = th * r.sign();
  else if (e.rot == 3) { rotAxis(r, axis); for (int i = 0; i < 3; ++i) t[e.rotIdx[i]] = th * axis[i]; }
  double mag = stratified ? sampleLinMag(r, o.linMax) : r.uni(0, 2);
  int nl = (int)e.linIdx.size();
  if (e.kind == ref::K_RN) linVec(r, nl, mag, nullptr, t);
  else if (e.kind == ref::K_SE2) { double v[2]; linVec(r, 2, mag, nullptr, v); t[0] = v[0]; t[1] = v[1]; }
  else for (int k = 0; k + 2 < nl; k += 3) {
    double v[3]; double m2 = (k == 0 || r.coin(0.5)) ? mag : sampleLinMag(r, o.linMax);
    linVec(r, 3, m2, axis, v); for (int i = 0; i < 3; ++i) t[e.linIdx[k + i]] = v[i];
  }
  if (e.timeIdx >= 0) t[e.timeIdx] = stratified ? sampleTime(r) : r.uni(-1, 1);
  label = (e.rot ? thetaBand<S>(th) : std::string("norot")) + "/" + (nl ? linBand(mag) : std::string("nolin"));
}
// tangent of the whole group, values already rounded to S; label = cell of the stratified (primary) block
template <class S> std::vector<S> genTangent(const ref::Group& g, Prng& r, const GenOpt& o, std::string& label) {
  std::vector<double> t(g.dof, 0.0);
  int prim = r.below(g.nb());
  for (int b = 0; b < g.nb(); ++b) {
    std::string l; genTangentBlock<S>(g.el[b], r, o, b == prim, t.data() + g.dofOff[b], l);
    if (b == prim) label = (g.nb() > 1 ? "b" + std::to_string(b) + ":" : std::string()) + l;
  }
  std::vector<S> out(g.dof); for (int i = 0; i < g.dof; ++i) out[i] = (S)t[i];
  return out;
}

// ---- elements, built from independently normalised rotation data (not through manif's exp) -----
template <class S> void genElementBlock(const ref::Elem& e, Prng& r, const GenOpt& o, bool stratified, S* c, std::string& label) {
  typedef long double LD;
  double th = stratified ? sampleTheta<S>(r, o) : r.uni(0, std::min(3.0, o.thetaMax));
  double axis[3] = {0, 0, 1};
  bool neg = o.hemi && r.coin(0.5);
  if (e.rot == 2) {
    LD a = (LD)th * r.sign(); LD re = std::cos(a), im = std::sin(a);
    c[e.rotCoef] = (S)re; c[e.rotCoef + 1] = (S)im;
  } else if (e.rot == 3) {
    rotAxis(r, axis);
    LD s = std::sin((LD)th / 2), w = std::cos((LD)th / 2);
    LD q[4] = {s * axis[0], s * axis[1], s * axis[2], w};
    // axis is unit only to double precision: renormalise in long double before rounding
    LD n = std::sqrt(q[0] * q[0] + q[1] * q[1] + q[2] * q[2] + q[3] * q[3]);
    for (int i = 0; i < 4; ++i) { q[i] /= n; if (neg) q[i] = -q[i]; c[e.rotCoef + i] = (S)q[i]; }
  }
  if (o.exactCoeff > 0 && e.rot && r.coin(o.exactCoeff)) {
    // elements a user writes down by coefficients rather than by angle: exact zeros (of either sign) where an angle would give 6e-17
    static const double Q[][4] = {{1, 0, 0, 0}, {0, 1, 0, 0}, {0, 0, 1, 0}, {0.6, 0, 0.8, 0}, {-0.6, 0.8, 0, 0}, {0, -0.28, 0.96, 0}, {0, 0, 0, 1}, {0, 0, 0, -1},
                                  {0.5, 0.5, 0.5, 0.5}, {0.5, -0.5, 0.5, -0.5}, {0.6, 0, 0, 0.8}, {0, 0.8, 0, -0.6}, {0, 0, 0.28, 0.96}, {0.96, 0, 0, -0.28}};
    static const double C[][2] = {{-1, 0}, {0, 1}, {0, -1}, {1, 0}, {0.6, 0.8}, {-0.6, 0.8}, {-0.8, -0.6}, {0.28, -0.96}, {-0.96, 0.28}};
    for (int attempt = 0; attempt < 20; ++attempt) {
      double ang; double vals[4]; int n = e.rot == 3 ? 4 : 2;
      if (e.rot == 3) { int q = r.below((int)(sizeof Q / sizeof Q[0])); for (int k = 0; k < 4; ++k) vals[k] = Q[q][k]; ang = 2 * std::atan2(std::sqrt(vals[0] * vals[0] + vals[1] * vals[1] + vals[2] * vals[2]), std::fabs(vals[3])); neg = vals[3] < 0; }
      else { int q = r.below((int)(sizeof C / sizeof C[0])); vals[0] = C[q][0]; vals[1] = C[q][1]; ang = std::fabs(std::atan2(vals[1], vals[0])); }
      if (ang > o.thetaMax) continue;
      for (int k = 0; k < n; ++k) { double v = vals[k]; if (v == 0 && r.coin(0.5)) v = -0.0; c[e.rotCoef + k] = (S)v; }
      th = ang; break;
    }
  }
  double mag = stratified ? sampleLinMag(r, o.linMax) : r.uni(0, 2);
  if (e.kind == ref::K_RN) { std::vector<double> v(e.dof); linVec(r, e.dof, mag, nullptr, v.data()); for (int i = 0; i < e.dof; ++i) c[i] = (S)v[i]; }
  else if (e.kind == ref::K_SE2) { double v[2]; linVec(r, 2, mag, nullptr, v); c[0] = (S)v[0]; c[1] = (S)v[1]; }
  else if (e.kind == ref::K_SE3 || e.kind == ref::K_SE23 || e.kind == ref::K_SGAL3) {
    double v[3]; linVec(r, 3, mag, axis, v); for (int i = 0; i < 3; ++i) c[i] = (S)v[i];
    if (e.kind != ref::K_SE3) { double m2 = r.coin(0.5) ? mag : sampleLinMag(r, o.linMax); linVec(r, 3, m2, axis, v); for (int i = 0; i < 3; ++i) c[7 + i] = (S)v[i]; }
    if (e.kind == ref::K_SGAL3) c[10] = (S)(stratified ? sampleTime(r) : r.uni(-1, 1));
  }
  label = (e.rot ? thetaBand<S>(th) + (e.rot == 3 ? (neg ? "/w<0" : "/w>0") : "") : std::string("norot")) + "/" + (e.linCoef.size() ? linBand(mag) : std::string("nolin"));
}
template <class S> std::vector<S> genElement(const ref::Group& g, Prng& r, const GenOpt& o, std::string& label) {
  std::vector<S> c(g.rep, S(0));
  int prim = r.below(g.nb());
  for (int b = 0; b < g.nb(); ++b) {
    std::string l; genElementBlock<S>(g.el[b], r, o, b == prim, c.data() + g.repOff[b], l);
    if (b == prim) label = (g.nb() > 1 ? "b" + std::to_string(b) + ":" : std::string()) + l;
  }
  return c;
}
template <class S> std::vector<S> genPoint(const ref::Group& g, Prng& r, double linMax) {
  std::vector<S> p(g.dim);
  double mag = sampleLinMag(r, linMax);
  for (int i = 0; i < g.dim; ++i) p[i] = (S)(mag * r.uni(-1, 1));
  return p;
}
