// Mapping manif types -> reference-model descriptors, and conversion helpers.
#pragma once
#include <manif/manif.h>
#include "model.h"
#include "prng.h"
#include "eventlog.h"

template <class G> struct GD;

#define GD_SIMPLE(T, K)                                                                         \
  template <class S> struct GD<manif::T<S>> {                                                   \
    static void addTo(ref::Group& g) { g.add(ref::Elem::make(ref::K)); }                        \
    static std::string name() { return ref::Elem::make(ref::K).name; }                          \
  };
GD_SIMPLE(SO2, K_SO2)
GD_SIMPLE(SE2, K_SE2)
GD_SIMPLE(SO3, K_SO3)
GD_SIMPLE(SE3, K_SE3)
GD_SIMPLE(SE_2_3, K_SE23)
GD_SIMPLE(SGal3, K_SGAL3)
template <class S, unsigned int N> struct GD<manif::Rn<S, N>> {
  static void addTo(ref::Group& g) { g.add(ref::Elem::make(ref::K_RN, N)); }
  static std::string name() { return "R" + std::to_string(N); }
};
template <class S, template <class> class... T> struct GD<manif::Bundle<S, T...>> {
  static void addTo(ref::Group& g) { int d[] = {(GD<T<S>>::addTo(g), 0)...}; (void)d; }
  static std::string name() {
    std::string n = "Bundle<"; std::string parts[] = {GD<T<S>>::name()...};
    for (size_t i = 0; i < sizeof...(T); ++i) { if (i) n += ","; n += parts[i]; }
    return n + ">";
  }
};
template <class G> const ref::Group& groupOf() {
  static const ref::Group g = [] { ref::Group x; GD<G>::addTo(x); x.name = GD<G>::name(); return x; }();
  return g;
}
template <class S> struct ScalarName;
template <> struct ScalarName<double> { static const char* n() { return "double"; } };
template <> struct ScalarName<float> { static const char* n() { return "float"; } };

// ---- conversions ------------------------------------------------------------------------------
template <class V> ref::VecL toL(const V& v) { ref::VecL r(v.size()); for (int i = 0; i < (int)v.size(); ++i) r(i) = (ref::LD)v[i]; return r; }
template <class M> ref::BigL toLM(const M& m) { ref::BigL r(m.rows(), m.cols()); for (int i = 0; i < m.rows(); ++i) for (int j = 0; j < m.cols(); ++j) r(i, j) = (ref::LD)m(i, j); return r; }
template <class G> ref::GM gmOf(const G& X) { return ref::toGM(groupOf<typename G::LieGroup>(), X.coeffs()); }
template <class T, class V> T tangentFrom(const V& v) {
  typename T::DataType d; for (int i = 0; i < (int)d.size(); ++i) d(i) = (typename T::Scalar)v[i]; return T(d);
}
template <class G, class V> G groupFrom(const V& v) {
  typename G::DataType d; for (int i = 0; i < (int)d.size(); ++i) d(i) = (typename G::Scalar)v[i]; return G(d);
}
inline bool allFinite(const ref::VecL& v) { return v.allFinite(); }
template <class V> bool finiteVec(const V& v) { for (int i = 0; i < (int)v.size(); ++i) if (!std::isfinite((double)v[i])) return false; return true; }

// the library's own acceptance test, recomputed by the monitor: max over blocks of | ||rot|| - 1 |
template <class V> ref::LD normDev(const ref::Group& g, const V& c) {
  ref::LD m = 0;
  for (int b = 0; b < g.nb(); ++b) {
    std::vector<ref::LD> cc(g.el[b].rep); for (int i = 0; i < g.el[b].rep; ++i) cc[i] = (ref::LD)c[g.repOff[b] + i];
    m = std::max(m, g.el[b].normDev(cc));
  }
  return m;
}
