// C01 monitor: compose / inverse / identity / act realise the matrix group (floating-point half).
#define MON_NAME "c01_group"
#include "mon.h"
#include <type_traits>

static double TOL() { return sizeof(MonS) == 4 ? 2e-5 : 1e-13; }

template <class T> struct IsBundle : std::false_type {};
template <class S, template <class> class... T> struct IsBundle<manif::Bundle<S, T...>> : std::true_type {};

// magnitude of the quantities that enter an operation: largest coordinate, and (SGal3) largest |time|, over the operands;
// products time * velocity are the largest intermediate quantities of the SGal3 formulas
struct Scale { ref::LD c = 1, t = 1; ref::LD operator()() const { return c * t; } };
static void addScale(Scale& s, const MonG& X) {
  const ref::Group& g = RG();
  for (int b = 0; b < g.nb(); ++b) {
    const ref::Elem& e = g.el[b];
    for (int k : e.linCoef) if (!(e.kind == ref::K_SGAL3 && k == 10)) s.c = std::max(s.c, (ref::LD)std::fabs((double)X.coeffs()(g.repOff[b] + k)));
    if (e.kind == ref::K_SGAL3) s.t = std::max(s.t, (ref::LD)std::fabs((double)X.coeffs()(g.repOff[b] + 10)));
  }
}
static ref::LD scaleOf(const MonG& X) { Scale s; addScale(s, X); return s(); }
static ref::LD scaleOf(const MonG& X, const MonG& Y) { Scale s; addScale(s, X); addScale(s, Y); return s(); }
static ref::LD scaleOf(const MonG& X, const MonG& Y, const MonG& Z) { Scale s; addScale(s, X); addScale(s, Y); addScale(s, Z); return s(); }

static MonG makeElement(Prng& r, std::string& label, bool viaExp) {
  const ref::Group& g = RG();
  GenOpt o; o.thetaMax = 3.14159265358979323846; o.nearPiMin = 0; o.linMax = 1e6; o.exactCoeff = 0.03;
  if (!viaExp) {
    std::vector<MonS> c = genElement<MonS>(g, r, o, label);
    // valid elements are those the library accepts: in double, a few per cent of the operands get rotation data whose norm is off by
    // 0.45 eps (inside the acceptance band |norm-1| < eps), so that products leave the band and the renormalisation branch of compose
    // is taken, in both hemispheres; the 4e-14 this adds to the matrices is inside the 1e-13 tolerance
    if (sizeof(MonS) == 8 && r.coin(0.06)) {
      const double f = 1 + r.sign() * 0.45 * (double)manif::Constants<MonS>::eps;
      for (int b = 0; b < g.nb(); ++b) { const ref::Elem& e = g.el[b]; int nq = e.rot == 3 ? 4 : e.rot == 2 ? 2 : 0; for (int k = 0; k < nq; ++k) c[g.repOff[b] + e.rotCoef + k] = (MonS)((double)c[g.repOff[b] + e.rotCoef + k] * f); }
      label += "/offnorm";
    }
    return groupFrom<MonG>(c);
  }
  o.beyondPi = true; o.thetaMax = 7;
  MonG X = tangentFrom<MonT>(genTangent<MonS>(g, r, o, label)).exp();
  label = "exp:" + label;
  return X;
}

template <class G> void checkTransform(const G& X, const ref::GM& M, const std::string& cellkey, const std::string& vkey, long long i, const Args& a, std::false_type) {
  const ref::Group& g = RG();
  ref::BigL T = toLM(X.transform()), Tr = ref::gtransform(g, M);
  double e = (double)((T - Tr).cwiseAbs().maxCoeff() / std::max((ref::LD)1, Tr.cwiseAbs().maxCoeff()));
  LOG.cell("transform/" + cellkey, e);
  if (!(e <= TOL())) LOG.viol("transform/" + vkey, e, caseJ(a, i).vec("X", X.coeffs()).d("err", e).str());
}
template <class G> void checkTransform(const G&, const ref::GM&, const std::string&, const std::string&, long long, const Args&, std::true_type) {}  // Bundle::transform: see C11

void runOnce(const Args&) {
  // Identity() is the identity matrix, exactly
  const ref::Group& g = RG();
  MonG I = MonG::Identity();
  ref::GM M = gmOf(I);
  double e = (double)ref::gdiff(M, ref::gid(g));
  double nd = (double)normDev(g, I.coeffs());
  LOG.cell("identity/" + GN(), e);
  if (!(e == 0 && nd == 0)) LOG.viol("identity-not-exact/" + GN(), std::max(e, nd), J().vec("I", I.coeffs()).str());
  MonG I2; I2.setIdentity();
  bool same = true; for (int k = 0; k < g.rep; ++k) same = same && I2.coeffs()(k) == I.coeffs()(k);
  if (!same) LOG.viol("identity-setIdentity-differs/" + GN(), 1, J().vec("I", I.coeffs()).vec("I2", I2.coeffs()).str());
}

void runCase(long long i, Prng& r, const Args& a) {
  const ref::Group& g = RG();
  std::string lx, ly, lz;
  MonG X = makeElement(r, lx, r.coin(0.25)), Y = makeElement(r, ly, r.coin(0.25)), Z = makeElement(r, lz, false);
  if (i % 7 == 0) Y = X;           // squaring
  if (i % 11 == 0) Y = MonG::Identity();
  const std::string cellkey = GN() + "/" + lx, vkey = GN() + "/" + dropLin(lx);
  ref::GM MX = gmOf(X), MY = gmOf(Y), MZ = gmOf(Z);
  ref::LD sx = scaleOf(X), sxy = scaleOf(X, Y), sxyz = scaleOf(X, Y, Z);
  bool nontrivial = ref::gdiff(MX, ref::gid(g)) > 0;

  // compose
  {
    MonG C = X.compose(Y);
    ref::GM Mc = gmOf(C), Mr = ref::gmul(MX, MY);
    double e = (double)(ref::gdiff(Mc, Mr) / sxy);
    LOG.cell("compose/" + cellkey, e, nontrivial); LOG.maxi("compose-err/" + GN(), e);
    if (!finiteVec(C.coeffs()) || !(e <= TOL())) LOG.viol("compose/" + vkey, e, caseJ(a, i).vec("X", X.coeffs()).vec("Y", Y.coeffs()).vec("XY", C.coeffs()).d("err", e).str());
    double nd = (double)normDev(g, C.coeffs());
    LOG.maxi("compose-normdev/" + GN(), nd);
    if (!(nd < Sc<MonS>::eps())) LOG.viol("compose-invalid/" + vkey, nd, caseJ(a, i).vec("X", X.coeffs()).vec("Y", Y.coeffs()).vec("XY", C.coeffs()).str());
    // associativity
    MonG L = C.compose(Z), R2 = X.compose(Y.compose(Z));
    ref::GM M3 = ref::gmul(Mr, MZ);
    double e1 = (double)(ref::gdiff(gmOf(L), M3) / sxyz), e2 = (double)(ref::gdiff(gmOf(R2), M3) / sxyz);
    LOG.cell("assoc/" + cellkey, std::max(e1, e2), nontrivial);
    if (!(std::max(e1, e2) <= 2 * TOL())) LOG.viol("associativity/" + vkey, std::max(e1, e2), caseJ(a, i).vec("X", X.coeffs()).vec("Y", Y.coeffs()).vec("Z", Z.coeffs()).str());
  }
  // inverse: equals the matrix inverse, two-sided
  {
    MonG Xi = X.inverse();
    ref::GM Mi = gmOf(Xi), Mr = ref::ginv(g, MX);
    double e = (double)(ref::gdiff(Mi, Mr) / sx);
    LOG.cell("inverse/" + cellkey, e, nontrivial); LOG.maxi("inverse-err/" + GN(), e);
    if (!finiteVec(Xi.coeffs()) || !(e <= TOL())) LOG.viol("inverse/" + vkey, e, caseJ(a, i).vec("X", X.coeffs()).vec("Xinv", Xi.coeffs()).d("err", e).str());
    ref::GM I = ref::gid(g);
    double el = (double)(ref::gdiff(gmOf(Xi.compose(X)), I) / sx), er = (double)(ref::gdiff(gmOf(X.compose(Xi)), I) / sx);
    LOG.cell("inverse-two-sided/" + cellkey, std::max(el, er), nontrivial);
    if (!(std::max(el, er) <= 4 * TOL())) LOG.viol("inverse-two-sided/" + vkey, std::max(el, er), caseJ(a, i).vec("X", X.coeffs()).vec("Xinv", Xi.coeffs()).d("left", el).d("right", er).str());
  }
  // identity is neutral
  {
    MonG I = MonG::Identity();
    double e = (double)(std::max(ref::gdiff(gmOf(X.compose(I)), MX), ref::gdiff(gmOf(I.compose(X)), MX)) / sx);
    LOG.cell("neutral/" + cellkey, e, nontrivial);
    if (!(e <= TOL())) LOG.viol("identity-not-neutral/" + vkey, e, caseJ(a, i).vec("X", X.coeffs()).str());
  }
  // act
  {
    std::vector<MonS> pv = genPoint<MonS>(g, r, 1e6);
    typename MonG::Vector p; for (int k = 0; k < g.dim; ++k) p(k) = pv[k];
    typename MonG::Vector q = X.act(p);
    ref::VecL qr = ref::gact(g, MX, toL(p));
    ref::LD ps = std::max((ref::LD)1, toL(p).cwiseAbs().maxCoeff());
    double e = (double)((toL(q) - qr).cwiseAbs().maxCoeff() / (sx * ps));
    LOG.cell("act/" + cellkey, e, nontrivial); LOG.maxi("act-err/" + GN(), e);
    if (!finiteVec(q) || !(e <= TOL())) LOG.viol("act/" + vkey, e, caseJ(a, i).vec("X", X.coeffs()).vec("p", pv).vec("Xp", q).d("err", e).str());
  }
  checkTransform(X, MX, cellkey, vkey, i, a, IsBundle<MonG>());
  if (i < 2) LOG.sample(caseJ(a, i).s("cell", lx).vecd("X", X.coeffs()).vecd("Y", Y.coeffs()).str());
}
