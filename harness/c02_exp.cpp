// C02 monitor: t.exp() is the matrix exponential of hat(t), uniformly in |t|.
#define MON_NAME "c02_exp"
#include "mon.h"

static double TOL() { return sizeof(MonS) == 4 ? 1e-4 : 1e-8; }

void runOnce(const Args&) {
  // generators: entry-wise exact against the documented tables
  const ref::Group& g = RG();
  for (int i = 0; i < g.dof; ++i) {
    ref::BigL Gi = toLM(MonT::Generator(i)), Gr = ref::ggen(g, i);
    bool same = Gi.rows() == Gr.rows() && Gi.cols() == Gr.cols() && (Gi - Gr).cwiseAbs().maxCoeff() == 0;
    LOG.cell("generator/" + GN(), same ? 0 : 1);
    if (!same) LOG.viol("generator/" + GN() + "/i=" + std::to_string(i), 1, J().i("i", i).str());
  }
}

void runCase(long long i, Prng& r, const Args& a) {
  const ref::Group& g = RG();
  GenOpt o; o.beyondPi = true; o.thetaMax = 13.0; o.linMax = 1e6;
  std::string label;
  std::vector<MonS> tv = genTangent<MonS>(g, r, o, label);
  MonT t = tangentFrom<MonT>(tv);
  ref::VecL tl = toL(t.coeffs());
  const std::string cellkey = GN() + "/" + label, vkey = GN() + "/" + dropLin(label);

  // hat: exact sum of t_i G_i (entries are copies or negations of coefficients)
  {
    ref::BigL H = toLM(t.hat()), Hr = ref::ghat(g, tl);
    double e = (double)(H - Hr).cwiseAbs().maxCoeff();
    LOG.cell("hat/" + cellkey, e);
    if (!(e == 0)) LOG.viol("hat/" + vkey, e, caseJ(a, i).vec("t", tv).str());
  }
  MonG X;
  try { X = t.exp(); }
  catch (const std::exception& e) {
    LOG.cell("exp/" + cellkey, INFINITY);
    LOG.viol("exp-throws/" + vkey, 1, caseJ(a, i).vec("t", tv).s("what", e.what()).str());
    return;
  }
  if (!finiteVec(X.coeffs())) {
    LOG.cell("exp/" + cellkey, INFINITY);
    LOG.viol("exp-nonfinite/" + vkey, INFINITY, caseJ(a, i).vec("t", tv).vec("X", X.coeffs()).str());
    return;
  }
  ref::GM M = gmOf(X), Mr = ref::gexp(g, tl);
  // accuracy is claimed relative to the size of the translation-like components (of the argument or of the result)
  ref::LD scale = std::max(ref::gscale(Mr), tl.cwiseAbs().maxCoeff());
  double err = (double)(ref::gdiff(M, Mr) / scale);
  LOG.cell("exp/" + cellkey, err, ref::gtheta(g, tl) > 0);
  LOG.maxi("exp-err/" + GN(), err);
  if (!(err <= TOL()))
    LOG.viol("exp-matrix/" + vkey, err, caseJ(a, i).vec("t", tv).vec("X", X.coeffs()).d("err", err).d("tol", TOL()).str());
  // the result must be a valid element by the library's own acceptance threshold
  double nd = (double)normDev(g, X.coeffs());
  LOG.maxi("exp-normdev/" + GN(), nd);
  if (!(nd < Sc<MonS>::eps()))
    LOG.viol("exp-invalid/" + vkey, nd, caseJ(a, i).vec("t", tv).vec("X", X.coeffs()).d("normdev", nd).str());
  if (i < 3) LOG.sample(caseJ(a, i).s("cell", label).vecd("t", tv).vecd("X", X.coeffs()).d("err", err).str());
}
