// C18 monitor: approximate equality is a well-behaved tolerance relation.
#define MON_NAME "c18_approx"
#include "mon.h"

static const double PI = 3.14159265358979323846;
using ref::VecL; using ref::LD;
void runOnce(const Args&) {}

static MonG negated(const MonG& X) {
  const ref::Group& g = RG(); typename MonG::DataType c = X.coeffs();
  for (int b = 0; b < g.nb(); ++b) if (g.el[b].rot == 3) for (int i = 0; i < 4; ++i) c(g.repOff[b] + g.el[b].rotCoef + i) = -c(g.repOff[b] + g.el[b].rotCoef + i);
  return MonG(c);
}

void runCase(long long i, Prng& r, const Args& a) {
  const ref::Group& g = RG();
  const double u = Sc<MonS>::u(), deps = Sc<MonS>::eps();
  const bool dbl = sizeof(MonS) == 8;
  GenOpt o; o.thetaMax = PI; o.nearPiMin = 0; o.linMax = dbl ? 1e9 : 1e4; o.exactCoeff = 0.03;
  std::string lx;
  MonG X = groupFrom<MonG>(genElement<MonS>(g, r, o, lx));
  const std::string gx = GN() + "/";
  J base; base.vec("X", X.coeffs());
  auto viol = [&](const std::string& key, double mag, const std::string& extra = "") { LOG.viol(key, mag, caseJ(a, i).s("note", extra).raw("inputs", base.str()).str()); };

  // ---- reflexivity, also for large coordinates and for the other coefficient vector of the same transformation ----
  {
    bool r1 = X.isApprox(X), r2 = (X == X), r3 = X.isApprox(X, MonS(dbl ? 1e-12 : 1e-5)), r4 = X.isApprox(X, MonS(1e-3));
    LOG.cell("reflexive/" + gx + lx, (r1 && r2 && r3 && r4) ? 0 : 1);
    double cm = 0; for (int k = 0; k < g.rep; ++k) cm = std::max(cm, std::fabs((double)X.coeffs()(k)));
    const std::string lb = gx + "coords:" + linBand(cm);
    if (!r1) viol("not-reflexive/isApprox/" + lb, 1);
    if (!r2) viol("not-reflexive/operator==/" + lb, 1);
    if (!r3) viol("not-reflexive/isApprox(tight-eps)/" + lb, 1);
    if (!r4) viol("not-reflexive/isApprox(1e-3)/" + lb, 1);
    MonG N = negated(X);
    bool d1 = (X == N), d2 = (N == X), d3 = X.isApprox(N, MonS(1e-3));
    LOG.cell("double-cover-equal/" + gx + lx, (d1 && d2 && d3) ? 0 : 1);
    if (!(d1 && d2 && d3)) viol("q-vs-minus-q-unequal/" + gx + dropLin(lx), 1);
  }
  // ---- threshold behaviour around eps ----------------------------------------------------------------------------
  {
    LD cmax = 1; for (int k = 0; k < g.rep; ++k) cmax = std::max(cmax, (LD)std::fabs((double)X.coeffs()(k)));
    LD tfac = 1; for (int b = 0; b < g.nb(); ++b) if (g.el[b].kind == ref::K_SGAL3) tfac = std::max(tfac, (LD)std::fabs((double)X.coeffs()(g.repOff[b] + 10)));
    static const double EPS[] = {1e-12, 1e-10, 1e-8, 1e-6, 1e-4, 1e-2};
    for (double eps : EPS) {
      // the tangent Y (-) X must be resolvable in the scalar type, otherwise neither answer is wrong
      if (!(eps >= 1e4 * u * (double)(cmax * tfac))) { LOG.count("threshold-unresolvable/" + GN()); continue; }
      for (int side = 0; side < 2; ++side) {
        const double mag = side == 0 ? eps / 100 : eps * 100;
        std::vector<double> d(g.dof, 0.0);
        int nz = 1 + r.below(g.dof);
        for (int q = 0; q < nz; ++q) d[r.below(g.dof)] = mag * r.uni(0.3, 1.0) * r.sign();
        d[r.below(g.dof)] = mag * r.sign();   // ||d||_inf = mag exactly
        MonG Y = X.rplus(tangentFrom<MonT>(d));
        bool e1 = X.isApprox(Y, MonS(eps)), e2 = Y.isApprox(X, MonS(eps));
        char lb[64]; snprintf(lb, sizeof lb, "eps=%g/%s", eps, side == 0 ? "d=eps/100" : "d=100eps");
        const bool want = side == 0;
        LOG.cell("threshold/" + gx + lb + "/" + linBand((double)cmax), (e1 == want && e2 == want) ? 0 : 1);
        if (e1 != e2) viol("not-symmetric/" + gx + lb, 1, "X.isApprox(Y) != Y.isApprox(X)");
        if (e1 != want || e2 != want) viol(std::string(want ? "close-elements-unequal/" : "distant-elements-equal/") + gx + lb, mag, "coords " + linBand((double)cmax));
      }
    }
  }
  // ---- tangents ---------------------------------------------------------------------------------------------------
  {
    std::string lt; GenOpt ot; ot.thetaMax = 3; ot.linMax = dbl ? 1e9 : 1e4;
    std::vector<MonS> tv = genTangent<MonS>(g, r, ot, lt);
    // overall magnitude swept from 1e-12 to 1e9
    double target = r.logu(dbl ? 1e-12 : 1e-6, dbl ? 1e9 : 1e4), nrm = 0; for (auto v : tv) nrm += (double)v * (double)v; nrm = std::sqrt(nrm);
    if (nrm > 0 && i % 2) for (auto& v : tv) v = (MonS)((double)v * target / nrm);
    MonT t = tangentFrom<MonT>(tv);
    nrm = 0; for (int k = 0; k < g.dof; ++k) nrm += (double)t.coeffs()(k) * (double)t.coeffs()(k); nrm = std::sqrt(nrm);
    J tb; tb.vec("t", tv);
    auto tviol = [&](const std::string& key, double mag) { LOG.viol(key, mag, caseJ(a, i).d("norm", nrm).raw("inputs", tb.str()).str()); };
    bool id = t.isApprox(t) && (t == t) && t.isApprox(t, MonS(dbl ? 1e-14 : 1e-6)) && t.isApprox(t.coeffs());
    LOG.cell("tangent-identical/" + gx + lt, id ? 0 : 1);
    if (!id && finiteVec(t.coeffs())) tviol("tangent-not-reflexive/" + gx, 1);
    static const double EPS[] = {1e-10, 1e-6, 1e-3};
    for (double eps : EPS) {
      if (eps < 1e3 * u) continue;
      char lb[32]; snprintf(lb, sizeof lb, "eps=%g", eps);
      // absolute test against zero
      {
        std::vector<double> s(g.dof, 0.0); int k = r.below(g.dof);
        s[k] = eps / 10 * r.sign(); MonT small = tangentFrom<MonT>(s);
        s[k] = eps * 10 * r.sign(); MonT big = tangentFrom<MonT>(s);
        bool z1 = small.isApprox(MonT::Zero(), MonS(eps)) && MonT::Zero().isApprox(small, MonS(eps));
        bool z2 = big.isApprox(MonT::Zero(), MonS(eps)) || MonT::Zero().isApprox(big, MonS(eps));
        LOG.cell("tangent-vs-zero/" + gx + lb, (z1 && !z2) ? 0 : 1);
        if (!z1) tviol("tangent-small-not-zero/" + gx + lb, eps / 10);
        if (z2) tviol("tangent-big-equals-zero/" + gx + lb, eps * 10);
      }
      // relative test otherwise
      if (nrm >= 100 * eps && nrm < 1e300) {
        MonT c1 = t * MonS(1 + eps / 10), c2 = t * MonS(1 - eps / 10), f1 = t * MonS(1 + 10 * eps), f2 = t * MonS(1 - 10 * eps);
        bool near = t.isApprox(c1, MonS(eps)) && c1.isApprox(t, MonS(eps)) && t.isApprox(c2, MonS(eps)) && c2.isApprox(t, MonS(eps));
        bool far = t.isApprox(f1, MonS(eps)) || f1.isApprox(t, MonS(eps)) || t.isApprox(f2, MonS(eps)) || f2.isApprox(t, MonS(eps));
        char mb[32]; snprintf(mb, sizeof mb, "|t|~1e%d", (int)std::floor(std::log10(nrm)));
        LOG.cell("tangent-relative/" + gx + lb + "/" + mb, (near && !far) ? 0 : 1);
        if (!near) tviol("tangent-relative-close-unequal/" + gx + lb, nrm);
        if (far) tviol("tangent-relative-distant-equal/" + gx + lb, nrm);
      }
    }
  }
  if (i < 2) LOG.sample(caseJ(a, i).s("cell", lx).vecd("X", X.coeffs()).str());
}
