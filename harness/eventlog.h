// Event log shared by all monitors: coverage cells, violations, counters -> JSON lines.
// One monitor process = one log file.  The Python driver folds the logs into the evidence file.
#pragma once
#include <cstdio>
#include <cstdint>
#include <cstdlib>
#include <cstring>
#include <cmath>
#include <map>
#include <set>
#include <string>
#include <vector>
#include <sstream>

inline std::string jesc(const std::string& s) {
  std::string o;
  for (char c : s) {
    if (c == '"' || c == '\\') { o += '\\'; o += c; }
    else if (c == '\n') o += "\\n";
    else if ((unsigned char)c < 0x20) o += ' ';
    else o += c;
  }
  return o;
}
inline std::string hexd(long double v) {
  char b[64];
  if (std::isnan((double)v)) return "nan";
  snprintf(b, sizeof b, "%a", (double)v);
  return b;
}
inline std::string dec(long double v) {
  char b[64];
  if (std::isnan((double)v)) return "\"nan\"";
  if (std::isinf((double)v)) return v > 0 ? "\"inf\"" : "\"-inf\"";
  snprintf(b, sizeof b, "%.6g", (double)v);
  return b;
}

// tiny JSON object builder (copyable)
struct J {
  std::string o; bool first = true;
  J() : o("{") {}
  void sep() { if (!first) o += ","; first = false; }
  void key(const char* k) { sep(); o += "\""; o += k; o += "\":"; }
  J& s(const char* k, const std::string& v) { key(k); o += "\"" + jesc(v) + "\""; return *this; }
  J& i(const char* k, long long v) { key(k); o += std::to_string(v); return *this; }
  J& u(const char* k, unsigned long long v) { key(k); o += std::to_string(v); return *this; }
  J& d(const char* k, long double v) { key(k); o += dec(v); return *this; }
  J& raw(const char* k, const std::string& v) { key(k); o += v; return *this; }
  template <class V> J& vec(const char* k, const V& v) {  // vector of scalars as hex-floats (exact)
    key(k); o += "[";
    for (int q = 0; q < (int)v.size(); ++q) { if (q) o += ","; o += "\"" + hexd((long double)v[q]) + "\""; }
    o += "]"; return *this;
  }
  template <class V> J& vecd(const char* k, const V& v) {  // decimal, for readability
    key(k); o += "[";
    for (int q = 0; q < (int)v.size(); ++q) { if (q) o += ","; o += dec((long double)v[q]); }
    o += "]"; return *this;
  }
  std::string str() const { return o + "}"; }
};

struct EventLog {
  struct Cell { uint64_t n = 0, nontriv = 0; double maxerr = 0; std::string sample; };
  struct Viol { uint64_t n = 0; double maxmag = 0; std::vector<std::string> recs; std::string worst; };
  std::map<std::string, Cell> cells;
  std::map<std::string, Viol> viols;
  std::map<std::string, double> maxima;
  std::map<std::string, uint64_t> counters;
  std::vector<std::string> samples;
  uint64_t evals = 0;
  std::string path, monitor;
  uint64_t seed = 0;
  bool verbose = false;

  // one oracle evaluation inside a coverage cell; nontrivial = the input was non-degenerate by the monitor's rule
  void cell(const std::string& key, double err, bool nontrivial = true) {
    Cell& c = cells[key];
    ++c.n; if (nontrivial) ++c.nontriv;
    if (err == err && err > c.maxerr) c.maxerr = err;
    ++evals;
  }
  void maxi(const std::string& key, double v) { double& m = maxima[key]; if (v > m) m = v; }
  void count(const std::string& key, uint64_t k = 1) { counters[key] += k; }
  void sample(const std::string& js) { if (samples.size() < 6) samples.push_back(js); }
  // a violation: key = <sub-claim>/<group>/<op>/<stratum> (stable), mag = observed magnitude, cs = JSON of the case
  void viol(const std::string& key, double mag, const std::string& cs) {
    Viol& v = viols[key];
    ++v.n;
    if (v.recs.size() < 3) v.recs.push_back(cs);
    if (!(mag <= v.maxmag) ) { v.maxmag = (mag == mag) ? mag : INFINITY; v.worst = cs; }
    if (verbose) fprintf(stderr, "VIOL %s mag=%g %s\n", key.c_str(), mag, cs.c_str());
  }
  void finish() {
    FILE* f = path.empty() ? stdout : fopen(path.c_str(), "w");
    if (!f) { perror("eventlog"); exit(2); }
    for (auto& kv : cells)
      fprintf(f, "{\"t\":\"cell\",\"key\":\"%s\",\"n\":%llu,\"nontrivial\":%llu,\"maxerr\":%s}\n", jesc(kv.first).c_str(),
              (unsigned long long)kv.second.n, (unsigned long long)kv.second.nontriv, dec(kv.second.maxerr).c_str());
    for (auto& kv : viols) {
      std::string recs = "[";
      for (size_t i = 0; i < kv.second.recs.size(); ++i) { if (i) recs += ","; recs += kv.second.recs[i]; }
      recs += "]";
      fprintf(f, "{\"t\":\"viol\",\"key\":\"%s\",\"n\":%llu,\"maxmag\":%s,\"worst\":%s,\"first\":%s}\n", jesc(kv.first).c_str(),
              (unsigned long long)kv.second.n, dec(kv.second.maxmag).c_str(),
              kv.second.worst.empty() ? "null" : kv.second.worst.c_str(), recs.c_str());
    }
    for (auto& kv : maxima) fprintf(f, "{\"t\":\"max\",\"key\":\"%s\",\"v\":%s}\n", jesc(kv.first).c_str(), dec(kv.second).c_str());
    for (auto& kv : counters) fprintf(f, "{\"t\":\"count\",\"key\":\"%s\",\"v\":%llu}\n", jesc(kv.first).c_str(), (unsigned long long)kv.second);
    for (auto& s : samples) fprintf(f, "{\"t\":\"sample\",\"v\":%s}\n", s.c_str());
    fprintf(f, "{\"t\":\"summary\",\"monitor\":\"%s\",\"seed\":%llu,\"evals\":%llu,\"cells\":%llu,\"violkeys\":%llu}\n", jesc(monitor).c_str(),
            (unsigned long long)seed, (unsigned long long)evals, (unsigned long long)cells.size(), (unsigned long long)viols.size());
    if (f != stdout) fclose(f);
  }
};

static EventLog LOG;

// common command line: --seed S --n N --out FILE [--only IDX] [--verbose] [--arg K=V ...]
struct Args {
  uint64_t seed = 1; long long n = 1000; long long only = -1; std::string out; bool verbose = false;
  std::map<std::string, std::string> kv;
  Args(int argc, char** argv) {
    for (int i = 1; i < argc; ++i) {
      std::string a = argv[i];
      auto nxt = [&]() -> std::string { if (i + 1 >= argc) { fprintf(stderr, "missing value for %s\n", a.c_str()); exit(2); } return argv[++i]; };
      if (a == "--seed") seed = strtoull(nxt().c_str(), 0, 10);
      else if (a == "--n") n = atoll(nxt().c_str());
      else if (a == "--only") only = atoll(nxt().c_str());
      else if (a == "--out") out = nxt();
      else if (a == "--verbose") verbose = true;
      else if (a == "--arg") { std::string s = nxt(); size_t p = s.find('='); kv[s.substr(0, p)] = p == std::string::npos ? "1" : s.substr(p + 1); }
      else { fprintf(stderr, "unknown argument %s\n", a.c_str()); exit(2); }
    }
    LOG.path = out; LOG.seed = seed; LOG.verbose = verbose || only >= 0;
  }
  std::string get(const std::string& k, const std::string& d = "") const { auto it = kv.find(k); return it == kv.end() ? d : it->second; }
};
