#!/usr/bin/env python3
"""Driver of the runtime monitors (see DESIGN.md section 2).

  python3 check.py <ID> --tier quick|thorough      run the check of one property
  python3 check.py <ID> --replay <path>            re-execute one recorded case verbosely
  python3 check.py --build-all                     warm the binary cache (MANIFEST.setup_cmd)

Exit codes: 0 held on everything explored (KNOWN-FINDING lines possible), 1 unlisted violation
(VIOLATION property=<ID> replay=<path>), 2 harness failure / inconclusive.
Python standard library only.
"""
import sys, os, json, hashlib, subprocess, time, fnmatch, re, shutil, argparse, glob
from concurrent.futures import ThreadPoolExecutor

ROOT = os.path.dirname(os.path.abspath(__file__))
REPO = os.environ.get('VERIF_REPO', '/repo')
CACHE = os.path.join(ROOT, '.cache')
HARN = os.path.join(ROOT, 'harness')
NCPU = int(os.environ.get('VERIF_JOBS', '16'))
sys.path.insert(0, ROOT)

COMMON = ['-std=c++14', '-DEIGEN_MALLOC_ALREADY_ALIGNED=0', '-I' + REPO + '/include', '-I' + REPO + '/external/tl',
          '-I/usr/include/eigen3', '-I' + HARN, '-Wno-deprecated-declarations']
BUILDS = {
    'asan': ['-O1', '-fno-omit-frame-pointer', '-fsanitize=address,undefined', '-fno-sanitize-recover=all', '-D_GLIBCXX_ASSERTIONS'],
    'asan-ndebug': ['-O1', '-fno-omit-frame-pointer', '-fsanitize=address,undefined', '-fno-sanitize-recover=all', '-D_GLIBCXX_ASSERTIONS', '-DNDEBUG'],
    'opt': ['-O2', '-DNDEBUG'],
    'dbg': ['-O1', '-D_GLIBCXX_ASSERTIONS'],
    'exact': ['-O2', '-D_GLIBCXX_ASSERTIONS'],   # exact-rational monitor: __int128 arithmetic, no sanitizer (UBSan would report nothing the overflow checks do not)
    'tsan': ['-O1', '-g', '-fsanitize=thread', '-pthread'],
    # EIGEN_STACK_ALLOCATION_LIMIT=0: a 22x22 Jacobian of Jet<double,44> (bundle layouts) exceeds Eigen's 128 KB guard for fixed-size objects
    'jet': ['-O1', '-fno-omit-frame-pointer', '-fsanitize=address,undefined', '-fno-sanitize-recover=all', '-D_GLIBCXX_ASSERTIONS', '-DEIGEN_STACK_ALLOCATION_LIMIT=0', '-I' + ROOT + '/stubs'],
}
RUN_ENV = {
    'ASAN_OPTIONS': 'abort_on_error=0:detect_leaks=0:detect_stack_use_after_return=1:exitcode=86',
    'UBSAN_OPTIONS': 'print_stacktrace=1:halt_on_error=1:exitcode=87',
}

_tree_hash = None


def sh(cmd, **kw):
    return subprocess.run(cmd, stdout=subprocess.PIPE, stderr=subprocess.STDOUT, universal_newlines=True, errors='replace', **kw)


def hash_files(paths):
    h = hashlib.sha256()
    for p in sorted(paths):
        h.update(p.encode()); h.update(b'\0')
        try:
            with open(p, 'rb') as f:
                h.update(f.read())
        except OSError:
            h.update(b'<missing>')
    return h.hexdigest()


def tree_hash():
    """Hash of everything under /repo the monitors compile against (working tree, not HEAD)."""
    global _tree_hash
    if _tree_hash is None:
        files = []
        for top in ('include', 'external/tl'):
            for d, _, fs in os.walk(os.path.join(REPO, top)):
                files += [os.path.join(d, f) for f in fs]
        _tree_hash = hash_files(files)
    return _tree_hash


def harness_hash(extra=()):
    files = glob.glob(HARN + '/*.h') + [HARN + '/model.cpp'] + glob.glob(ROOT + '/stubs/ceres/*') + list(extra)   # model.cpp: the oracle is linked into every monitor
    return hash_files(files)


def model_obj():
    """The reference model is compiled once (-O2, no sanitizer: it is the oracle, not the subject)."""
    key = hash_files([HARN + '/model.cpp', HARN + '/model.h'])[:16]
    out = os.path.join(CACHE, 'bin', 'model-%s.o' % key)
    if not os.path.exists(out):
        os.makedirs(os.path.dirname(out), exist_ok=True)
        for old in glob.glob(os.path.join(CACHE, 'bin', 'model-*.o')):
            os.remove(old)
        r = sh(['g++', '-std=c++14', '-O2', '-DEIGEN_MALLOC_ALREADY_ALIGNED=0', '-I/usr/include/eigen3', '-c', HARN + '/model.cpp', '-o', out + '.tmp'])
        if r.returncode != 0:
            print(r.stdout); raise SystemExit(2)
        os.replace(out + '.tmp', out)
    return out


class Bin:
    """One monitor binary = (source, build kind, -D defines)."""

    def __init__(self, src, build, defs=(), name=None, link_model=True, extra_flags=()):
        self.src, self.build, self.defs, self.link_model, self.extra = src, build, list(defs), link_model, list(extra_flags)
        self.name = name or (os.path.splitext(os.path.basename(src))[0] + '-' + build + ''.join('-' + d.split('=')[-1] for d in defs))
        self.name = re.sub(r'[^A-Za-z0-9_.-]', '_', self.name)
        self.path = None
        self.error = None

    def flags(self):
        return COMMON + BUILDS[self.build] + self.extra + ['-D' + d for d in self.defs]

    def key(self):
        h = hashlib.sha256()
        h.update(tree_hash().encode()); h.update(harness_hash([os.path.join(HARN, self.src)]).encode())
        h.update(' '.join(self.flags()).encode())
        return h.hexdigest()[:16]

    def ensure(self):
        d = os.path.join(CACHE, 'bin')
        os.makedirs(d, exist_ok=True)
        out = os.path.join(d, '%s-%s' % (self.name, self.key()))
        if os.path.exists(out):
            self.path = out
            return True
        for old in glob.glob(os.path.join(d, self.name + '-????????????????')) + glob.glob(os.path.join(d, self.name + '-*.err')):
            try: os.remove(old)
            except OSError: pass
        cmd = ['g++'] + self.flags() + [os.path.join(HARN, self.src)] + ([model_obj()] if self.link_model else []) + ['-o', out + '.tmp']
        r = sh(cmd)
        if r.returncode != 0:
            self.error = r.stdout
            with open(out + '.err', 'w') as f:
                f.write(' '.join(cmd) + '\n' + r.stdout)
            return False
        os.replace(out + '.tmp', out)
        self.path = out
        return True


def build_all(bins):
    model_obj()
    uniq = {}
    for b in bins:
        uniq.setdefault(b.name, b)
    t0 = time.time()
    with ThreadPoolExecutor(NCPU) as ex:
        res = list(ex.map(lambda b: b.ensure(), uniq.values()))
    for b in bins:
        u = uniq[b.name]
        b.path, b.error = u.path, u.error
    return all(res), time.time() - t0


def run_proc(cmd, log, timeout, env=None):
    """Run one monitor process; returns (rc, output, timed_out)."""
    e = dict(os.environ); e.update(RUN_ENV)
    if env: e.update(env)
    try:
        r = subprocess.run(cmd, stdout=subprocess.PIPE, stderr=subprocess.STDOUT, universal_newlines=True, timeout=timeout, env=e, errors='replace')
        return r.returncode, r.stdout, False
    except subprocess.TimeoutExpired as ex:
        return -9, (ex.stdout or '') if isinstance(ex.stdout, str) else '', True


# ------------------------------------------------------------------------------------------------
# evidence only: which lines of the anchored headers did the workload execute (gcov on a separate -O0 --coverage build)
# ------------------------------------------------------------------------------------------------
def header_coverage(prop, items, timeout=600):
    """items: list of dict(src=..., defs=[...], args=[...], n=int, seed=int, stubs=bool).  Returns a dict for the evidence file."""
    import tempfile
    base = os.path.join(CACHE, 'cov', '%s-%d' % (prop, os.getpid()))
    if os.path.isdir(base): shutil.rmtree(base)
    agg, key_hits, notes = {}, {}, []
    def one(idx_item):
        idx, it = idx_item
        d = os.path.join(base, '%02d' % idx); os.makedirs(d)
        flags = [f for f in COMMON] + ['-O0', '--coverage'] + (['-I' + ROOT + '/stubs'] if it.get('stubs') else []) + ['-D' + x for x in it['defs']]
        exe = os.path.join(d, 'mon')
        r = sh(['g++'] + flags + [os.path.join(HARN, it['src'])] + ([model_obj()] if it.get('model', True) else []) + ['-o', exe], cwd=d)
        if r.returncode != 0: return idx, None, 'coverage build failed for ' + it['src']
        cmd = [exe, '--seed', str(it.get('seed', 1)), '--n', str(it['n']), '--out', os.path.join(d, 'log.jsonl')] + it.get('args', [])
        rc, out, to = run_proc(cmd, None, timeout)
        g = sh('gcov --json-format --stdout ' + ' '.join(glob.glob(os.path.join(d, '*.gcda'))), shell=True, cwd=d) if glob.glob(os.path.join(d, '*.gcda')) else None
        if not g or g.returncode != 0: return idx, None, 'gcov produced nothing for ' + it['src']
        try: data = json.loads(g.stdout)
        except ValueError: return idx, None, 'gcov output unparsable'
        return idx, data, None
    with ThreadPoolExecutor(NCPU) as ex:
        results = list(ex.map(one, list(enumerate(items))))
    src_cache = {}
    for idx, data, err in results:
        if err: notes.append(err); continue
        for f in data.get('files', []):
            fn = f['file']
            if not fn.startswith(REPO + '/include/'): continue
            rel = fn[len(REPO) + 1:]
            a = agg.setdefault(rel, {})
            for l in f['lines']:
                a[l['line_number']] = a.get(l['line_number'], 0) + l['count']
            if rel not in src_cache:
                try: src_cache[rel] = open(fn, errors='replace').read().split('\n')
                except OSError: src_cache[rel] = []
    out = {}
    for rel, lines in sorted(agg.items()):
        hit = sum(1 for c in lines.values() if c > 0)
        unhit = sorted(k for k, c in lines.items() if c == 0)
        out[rel] = {'lines_executed': hit, 'lines_instrumented': len(lines), 'first_unexecuted_lines': unhit[:8]}
        txt = src_cache.get(rel, [])
        for ln, c in lines.items():
            if 0 < ln <= len(txt) and re.search(r'approxSqrtInv\(|MANIF_THROW|MANIF_CHECK|MANIF_ASSERT', txt[ln - 1]) and 'define' not in txt[ln - 1]:
                key_hits['%s:%d: %s' % (rel, ln, txt[ln - 1].strip()[:70])] = c
    shutil.rmtree(base, ignore_errors=True)
    return {'tool': 'gcov (separate -O0 --coverage build of the same monitors, %d small workloads)' % len(items), 'headers': out, 'key_line_hits': key_hits, 'notes': notes}


# ------------------------------------------------------------------------------------------------
# folding of event logs
# ------------------------------------------------------------------------------------------------
class Fold:
    def __init__(self):
        self.cells, self.viols, self.maxima, self.counters, self.samples = {}, {}, {}, {}, []
        self.evals = 0
        self.procs = 0
        self.notes = []

    def add_file(self, path):
        if not os.path.exists(path):
            return False
        ok = False
        with open(path) as f:
            for line in f:
                line = line.strip()
                if not line: continue
                try: r = json.loads(line)
                except ValueError:
                    self.notes.append('unparsable log line in ' + path); continue
                t = r.get('t')
                if t == 'cell':
                    c = self.cells.setdefault(r['key'], {'n': 0, 'nontrivial': 0, 'maxerr': 0.0})
                    c['n'] += r['n']; c['nontrivial'] += r['nontrivial']
                    me = r['maxerr']
                    me = float('inf') if isinstance(me, str) else me
                    c['maxerr'] = max(c['maxerr'], me)
                elif t == 'viol':
                    v = self.viols.setdefault(r['key'], {'n': 0, 'maxmag': 0.0, 'worst': None, 'first': []})
                    v['n'] += r['n']
                    mm = r['maxmag']; mm = float('inf') if isinstance(mm, str) else mm
                    if v['worst'] is None or mm > v['maxmag']:
                        v['worst'] = r.get('worst')
                    v['maxmag'] = max(v['maxmag'], mm)
                    v['first'] = (v['first'] + (r.get('first') or []))[:3]
                elif t == 'max':
                    v = r['v']; v = float('inf') if isinstance(v, str) else v
                    self.maxima[r['key']] = max(self.maxima.get(r['key'], 0.0), v)
                elif t == 'count':
                    self.counters[r['key']] = self.counters.get(r['key'], 0) + r['v']
                elif t == 'sample':
                    if len(self.samples) < 8: self.samples.append(r['v'])
                elif t == 'summary':
                    self.evals += r['evals']; self.procs += 1; ok = True
        return ok

    def viol(self, key, mag, case):
        v = self.viols.setdefault(key, {'n': 0, 'maxmag': 0.0, 'worst': None, 'first': []})
        v['n'] += 1
        if v['worst'] is None or mag > v['maxmag']: v['worst'] = case
        v['maxmag'] = max(v['maxmag'], mag)
        if len(v['first']) < 3: v['first'].append(case)


def load_findings(prop):
    path = os.path.join(ROOT, 'known_findings.txt')
    out = []
    if not os.path.exists(path): return out
    for line in open(path):
        line = line.strip()
        if not line.startswith('finding:'): continue
        m = re.match(r'finding:\s+property=(\S+)\s+key=(\S+)\s+cap=(\S+)\s+(.*)', line)
        if not m:
            print('known_findings.txt: malformed line: ' + line); continue
        if m.group(1) != prop: continue
        out.append({'key': m.group(2), 'cap': float(m.group(3)), 'text': m.group(4)})
    return out


def jsafe(x):
    """JSON without NaN/Infinity."""
    if isinstance(x, float):
        if x != x: return 'nan'
        if x in (float('inf'), float('-inf')): return 'inf' if x > 0 else '-inf'
        return x
    if isinstance(x, dict): return {k: jsafe(v) for k, v in x.items()}
    if isinstance(x, (list, tuple)): return [jsafe(v) for v in x]
    return x


def validate_evidence(ev):
    req = ['property_id', 'tier', 'seed', 'level', 'coverage', 'wall_s']
    for k in req:
        if k not in ev: raise ValueError('evidence lacks ' + k)
    c = ev['coverage']
    if ev['level'] in ('exploration', 'fault_enumeration'):
        assert isinstance(c.get('evaluations'), int) and c['evaluations'] >= 1
        assert isinstance(c.get('distinct_nontrivial'), int) and c['distinct_nontrivial'] >= 2
        assert isinstance(c.get('rule'), str) and isinstance(c.get('samples'), list) and len(c['samples']) >= 1


def finish(prop, tier, seed, fold, spec, t0, harness_fail=None, extra_cov=None):
    """Known-findings matching, replay files, evidence file, verdict lines, exit code."""
    findings = load_findings(prop)
    rdir = os.path.join(ROOT, 'replays', prop)
    if os.path.isdir(rdir): shutil.rmtree(rdir)
    unlisted, known = [], {}
    for key in sorted(fold.viols):
        v = fold.viols[key]
        hit = None
        for f in findings:
            if fnmatch.fnmatchcase(key, f['key']) and v['maxmag'] <= f['cap']:
                hit = f; break
        if hit:
            known.setdefault(hit['key'] + ' ' + hit['text'], []).append(key)
        else:
            os.makedirs(rdir, exist_ok=True)
            fn = os.path.join(rdir, re.sub(r'[^A-Za-z0-9_.=-]', '_', key)[:150] + '.json')
            with open(fn, 'w') as f:
                json.dump(jsafe({'property': prop, 'key': key, 'count': v['n'], 'max_magnitude': v['maxmag'], 'worst': v['worst'], 'first': v['first'],
                                 'replay': 'python3 /verif/check.py %s --replay %s' % (prop, fn)}), f, indent=1)
            unlisted.append((key, fn, v))
    for k in sorted(known):
        print('KNOWN-FINDING: property=%s %s   [%d cell(s) matched]' % (prop, k, len(known[k])))
    for key, fn, v in unlisted[:40]:
        print('VIOLATION property=%s replay=%s   key=%s n=%d max=%.3g' % (prop, fn, key, v['n'], v['maxmag']))
    if len(unlisted) > 40:
        print('... and %d more violation keys (see %s)' % (len(unlisted) - 40, rdir))
    nontriv = sum(1 for c in fold.cells.values() if c['nontrivial'] > 0)
    worst_cells = sorted(fold.cells.items(), key=lambda kv: -kv[1]['maxerr'] if kv[1]['maxerr'] == kv[1]['maxerr'] else 0)[:12]
    cov = {
        'evaluations': int(fold.evals),
        'distinct_nontrivial': int(nontriv),
        'rule': spec.get('rule', ''),
        'samples': fold.samples[:6] if fold.samples else [{'note': 'no sample recorded'}],
        'cells_total': len(fold.cells),
        'monitor_processes': fold.procs,
        'per_metric_max': {k: fold.maxima[k] for k in sorted(fold.maxima)},
        'counters': {k: fold.counters[k] for k in sorted(fold.counters)},
        'worst_cells': [{'cell': k, 'n': c['n'], 'maxerr': c['maxerr']} for k, c in worst_cells],
        'violation_keys_unlisted': [k for k, _, _ in unlisted][:100],
        'violation_keys_known': sorted(sum(known.values(), []))[:100],
        'notes': fold.notes[:20],
    }
    if extra_cov: cov.update(extra_cov)
    ev = jsafe({
        'property_id': prop, 'tier': tier, 'seed': int(seed), 'level': spec.get('level', 'exploration'),
        'coverage': cov, 'assumptions': spec.get('assumptions', []), 'wall_s': round(time.time() - t0, 2),
        'violations': len(unlisted),
    })
    inconclusive = harness_fail
    if fold.evals < 1 or nontriv < 2:
        inconclusive = (inconclusive or '') + ' monitors observed too little (evaluations=%d, nontrivial cells=%d)' % (fold.evals, nontriv)
        ev['coverage']['evaluations'] = max(1, ev['coverage']['evaluations']); ev['coverage']['distinct_nontrivial'] = max(2, nontriv)
        ev['coverage']['notes'].append('INCONCLUSIVE RUN: counts padded only to keep the file schema-valid')
    validate_evidence(ev)
    os.makedirs(os.path.join(ROOT, 'evidence'), exist_ok=True)
    with open(os.path.join(ROOT, 'evidence', prop + '.json'), 'w') as f:
        json.dump(ev, f, indent=1)
    print('%s %s: %d evaluations, %d/%d non-trivial cells, %d processes, %d unlisted violation key(s), %d known, %.1fs' % (
        prop, tier, fold.evals, nontriv, len(fold.cells), fold.procs, len(unlisted), len(known), time.time() - t0))
    if unlisted: return 1
    if inconclusive:
        print('INCONCLUSIVE property=%s: %s' % (prop, inconclusive.strip()))
        return 2
    return 0


# ------------------------------------------------------------------------------------------------
# generic runner for "many sharded monitor processes" checks
# ------------------------------------------------------------------------------------------------
def sanitizer_violation(fold, prop, mon_name, rc, out, cmd):
    """A sanitizer abort / crash of a monitor process is a violation routed through the same matching."""
    kind = 'crash-rc%d' % rc
    m = re.search(r'ERROR: AddressSanitizer: (\S+)', out)
    if m: kind = 'asan-' + m.group(1)
    elif 'runtime error:' in out:
        m = re.search(r'runtime error: ([^\n]{0,60})', out)
        kind = 'ubsan-' + re.sub(r'[^A-Za-z0-9]+', '-', m.group(1))[:40] if m else 'ubsan'
    elif rc == 99 and '== ' in out and ('Invalid read' in out or 'Invalid write' in out or 'uninitialised' in out or 'definitely lost' in out):
        m = re.search(r'==\d+== (Invalid (?:read|write) of size \d+|Conditional jump or move depends on uninitialised value|Use of uninitialised value[^\n]*)', out)
        kind = 'memcheck-' + re.sub(r'[^A-Za-z0-9]+', '-', m.group(1))[:50] if m else 'memcheck'
    elif 'Assertion' in out and 'failed' in out: kind = 'assert-failed'
    elif 'terminate called' in out: kind = 'terminate'
    frames = re.findall(r'#\d+ 0x[0-9a-f]+ in ([^\n]+?) (?:\(|/)', out) + re.findall(r'(?:at|by) 0x[0-9A-F]+: ([^\n]+?) \(', out)
    where = ''
    for fr in frames:
        if 'manif::' in fr:
            where = re.sub(r'<.*', '', fr.split('(')[0])[:60]; break
    key = 'sanitizer/%s/%s/%s' % (mon_name, kind, where)
    fold.viol(key, float('inf'), {'cmd': ' '.join(cmd), 'rc': rc, 'output_tail': out[-3000:]})


def run_sharded(prop, tier, seed, jobs, timeout):
    """jobs: list of dict(bin=Bin, n=int, seed=int, args=[...]).  Returns Fold, harness_fail."""
    fold = Fold()
    rundir = os.path.join(CACHE, 'run', '%s-%d' % (prop, os.getpid()))
    if os.path.isdir(rundir): shutil.rmtree(rundir)
    os.makedirs(rundir)
    fail = None

    def one(ij):
        i, j = ij
        log = os.path.join(rundir, '%04d.jsonl' % i)
        cmd = j.get('wrap', []) + [j['bin'].path, '--seed', str(j['seed']), '--n', str(j['n']), '--out', log] + j.get('args', [])
        rc, out, to = run_proc(cmd, log, timeout, env=j.get('env'))
        if to:  # inconclusive unless it happens twice
            rc, out, to = run_proc(cmd, log, timeout, env=j.get('env'))
        return i, j, cmd, log, rc, out, to

    with ThreadPoolExecutor(NCPU) as ex:
        for i, j, cmd, log, rc, out, to in ex.map(one, list(enumerate(jobs))):
            if to:
                fail = (fail or '') + ' watchdog fired twice for ' + ' '.join(cmd)
                continue
            if rc != 0:
                if rc == 2 and 'self-check' in out:
                    fail = (fail or '') + ' ' + out.strip()[-200:]
                else:
                    sanitizer_violation(fold, prop, j['bin'].name.split('-')[0] + ':' + j.get('tag', ''), rc, out, cmd)
                fold.add_file(log)
                continue
            if not fold.add_file(log):
                fail = (fail or '') + ' no summary record from ' + ' '.join(cmd)
    shutil.rmtree(rundir, ignore_errors=True)
    return fold, fail


def main():
    from checks import REGISTRY  # property table (checks.py)
    ap = argparse.ArgumentParser()
    ap.add_argument('prop', nargs='?')
    ap.add_argument('--tier', default=os.environ.get('VERIF_TIER', 'quick'), choices=['quick', 'thorough'])
    ap.add_argument('--replay')
    ap.add_argument('--build-all', action='store_true')
    a = ap.parse_args()
    seed = int(os.environ.get('VERIF_SEED', '20260926'))
    if a.build_all:
        bins = []
        for p, spec in REGISTRY.items():
            bins += spec['bins']('quick')
        ok, dt = build_all(bins)
        bad = [b for b in bins if b.error]
        print('built %d monitor binaries in %.0fs (%d failed to build)' % (len(bins), dt, len(bad)))
        for b in bad[:5]:
            print('--- %s\n%s' % (b.name, b.error[-1500:]))
        return 0  # a monitor that does not build is reported by its own check
    if not a.prop or a.prop not in REGISTRY:
        print('usage: check.py <ID> --tier quick|thorough ; known ids: ' + ' '.join(sorted(REGISTRY)))
        return 2
    spec = REGISTRY[a.prop]
    t0 = time.time()
    if a.replay:
        return spec['replay'](a.replay) if 'replay' in spec else generic_replay(spec, a.replay)
    return spec['run'](a.prop, a.tier, seed, t0)


def generic_replay(spec, path):
    rec = json.load(open(path))
    case = rec.get('worst') or (rec.get('first') or [None])[0]
    if not case or 'monitor' not in case:
        print(json.dumps(rec, indent=1)); return 0
    mon, grp = case['monitor'].split(':')
    g, s = grp.split('/')
    bins = [b for b in spec['bins']('quick') if b.src.startswith(mon) and ('MG=' + g) in b.defs and ('MS=' + s) in b.defs]
    if not bins:
        print('no binary for ' + case['monitor']); return 2
    b = bins[0]
    if not b.ensure():
        print(b.error); return 2
    cmd = [b.path, '--seed', str(case['seed']), '--only', str(case['idx']), '--verbose'] + sum([['--arg', x] for x in case.get('args', [])], [])
    print('replaying: ' + ' '.join(cmd))
    rc, out, _ = run_proc(cmd, None, 600)
    print(out)
    return 1 if ('VIOL' in out or rc != 0) else 0


if __name__ == '__main__':
    sys.exit(main())
